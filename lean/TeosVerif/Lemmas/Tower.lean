/- Helper lemmas about the tower model (no property statements here). -/
import TeosVerif.Model.Tower

namespace Teos

theorem isEmpty_mem {α : Type} {l : List α} (h : l.isEmpty = true) (x : α) : x ∉ l := by
  cases l with
  | nil => simp
  | cons _ _ => simp at h

/-- the gatekeeper step, field by field (both branches of the emptiness test) -/
theorem gkConnect_mem_users (cfg : Cfg) (s : Tower) (H : Nat) (x : User) :
    (gkConnect cfg s H).mem.users x = if x ∈ outdatedUsers cfg s H then none else s.mem.users x := by
  unfold gkConnect
  simp only
  by_cases he : (outdatedUsers cfg s H).isEmpty = true
  · simp [he, isEmpty_mem he x]
  · simp [he]

theorem gkConnect_db_users (cfg : Cfg) (s : Tower) (H : Nat) (x : User) :
    (gkConnect cfg s H).db.users x = if x ∈ outdatedUsers cfg s H then none else s.db.users x := by
  unfold gkConnect
  simp only
  by_cases he : (outdatedUsers cfg s H).isEmpty = true
  · simp [he, isEmpty_mem he x]
  · simp [he, Db.removeUsers]

theorem gkConnect_db_appts (cfg : Cfg) (s : Tower) (H : Nat) (k : Uuid) :
    (gkConnect cfg s H).db.appts k = if k.2 ∈ outdatedUsers cfg s H then none else s.db.appts k := by
  unfold gkConnect
  simp only
  by_cases he : (outdatedUsers cfg s H).isEmpty = true
  · simp [he, isEmpty_mem he k.2]
  · simp [he, Db.removeUsers]

theorem gkConnect_db_trackers (cfg : Cfg) (s : Tower) (H : Nat) (k : Uuid) :
    (gkConnect cfg s H).db.trackers k = if k.2 ∈ outdatedUsers cfg s H then none else s.db.trackers k := by
  unfold gkConnect
  simp only
  by_cases he : (outdatedUsers cfg s H).isEmpty = true
  · simp [he, isEmpty_mem he k.2]
  · simp [he, Db.removeUsers]

theorem gkConnect_height (cfg : Cfg) (s : Tower) (H : Nat) : (gkConnect cfg s H).mem.gkHeight = H := by
  unfold gkConnect; simp only

theorem mem_outdated_iff (cfg : Cfg) (s : Tower) (H : Nat) (u : User) :
    u ∈ outdatedUsers cfg s H ↔
      u ∈ s.db.userKeys ∧ ∃ ui, s.mem.users u = some ui ∧ ui.expiry + cfg.grace ≤ H := by
  unfold outdatedUsers
  rw [List.mem_filter]
  constructor
  · rintro ⟨hk, h⟩
    refine ⟨hk, ?_⟩
    cases hu : s.mem.users u with
    | none => simp [hu] at h
    | some ui =>
      simp only [hu, Gen.userOutdated, decide_eq_true_eq] at h
      exact ⟨ui, rfl, h⟩
  · rintro ⟨hk, ui, hu, hle⟩
    refine ⟨hk, ?_⟩
    simp only [hu, Gen.userOutdated, decide_eq_true_eq]
    exact hle

end Teos

namespace Teos

@[simp] theorem Db.removeAppts_users (d : Db) (ks : List Uuid) : (d.removeAppts ks).users = d.users := by
  unfold Db.removeAppts Db.dropAppts
  split
  · split <;> rfl
  · rfl

theorem Db.removeAppts_appts (d : Db) (ks : List Uuid) (k : Uuid) :
    (d.removeAppts ks).appts k = if k ∈ ks then none else d.appts k := by
  unfold Db.removeAppts Db.dropAppts
  split
  · rename_i k0
    split
    · rfl
    · rename_i h
      by_cases e : k = k0
      · subst e; simp at h; simp [h]
      · simp [e]
  · rfl

theorem Db.removeAppts_trackers_ne (d : Db) (ks : List Uuid) (k : Uuid) (h : k ∉ ks) :
    (d.removeAppts ks).trackers k = d.trackers k := by
  unfold Db.removeAppts Db.dropAppts
  split
  · split
    · simp only; rw [if_neg h]
    · rfl
  · simp only; rw [if_neg h]

/-- with the foreign key (no tracker without its appointment) a deleted key has no tracker left -/
theorem Db.removeAppts_trackers_mem (d : Db) (ks : List Uuid) (k : Uuid) (h : k ∈ ks)
    (hfk : d.appts k = none → d.trackers k = none) : (d.removeAppts ks).trackers k = none := by
  unfold Db.removeAppts Db.dropAppts
  split
  · rename_i k0
    have e : k = k0 := by simpa using h
    subst e
    split
    · simp
    · rename_i hn
      simp at hn
      exact hfk hn
  · simp [h]

/-- `FrameK k s s'`: going from `s` to `s'` touched at most the appointment/tracker stored under
key `k` and the subscription record of its owner `k.2`. -/
structure FrameK (k : Uuid) (s s' : Tower) : Prop where
  dbUsers  : ∀ u, u ≠ k.2 → s'.db.users u = s.db.users u
  memUsers : ∀ u, u ≠ k.2 → s'.mem.users u = s.mem.users u
  appts    : ∀ k', k' ≠ k → s'.db.appts k' = s.db.appts k'
  trackers : ∀ k', k' ≠ k → s'.db.trackers k' = s.db.trackers k'

theorem FrameK.refl (k : Uuid) (s : Tower) : FrameK k s s :=
  ⟨fun _ _ => rfl, fun _ _ => rfl, fun _ _ => rfl, fun _ _ => rfl⟩

theorem FrameK.trans {k : Uuid} {a b c : Tower} (h1 : FrameK k a b) (h2 : FrameK k b c) : FrameK k a c :=
  ⟨fun u hu => (h2.dbUsers u hu).trans (h1.dbUsers u hu),
   fun u hu => (h2.memUsers u hu).trans (h1.memUsers u hu),
   fun k' hk => (h2.appts k' hk).trans (h1.appts k' hk),
   fun k' hk => (h2.trackers k' hk).trans (h1.trackers k' hk)⟩

theorem frame_abort (k : Uuid) (s : Tower) (site : String) : FrameK k s (s.abort site) := by
  unfold Tower.abort
  split
  · exact FrameK.refl k _
  · exact ⟨fun _ _ => rfl, fun _ _ => rfl, fun _ _ => rfl, fun _ _ => rfl⟩

/-- a change of volatile, non-user state only -/
theorem frame_mem_only (k : Uuid) (s : Tower) (m : Mem) (hm : m.users = s.mem.users) :
    FrameK k s { s with mem := m } :=
  ⟨fun _ _ => rfl, fun u _ => by simp [hm], fun _ _ => rfl, fun _ _ => rfl⟩

theorem carrierSend_users (m : Mem) (node : Node) (tx : TxId) : (carrierSend m node tx).1.users = m.users := by
  unfold carrierSend; split <;> rfl

theorem frame_addTracker (k : Uuid) (s : Tower) (t : Tracker) : FrameK k s (addTracker s k t) := by
  unfold addTracker Db.storeTracker
  split
  · rename_i db' h
    split at h
    · cases h
    · split at h
      · cases h
        refine ⟨fun _ _ => rfl, fun _ _ => rfl, fun _ _ => rfl, fun k' hk => ?_⟩
        simp [hk]
      · cases h
  · exact FrameK.refl k s

theorem frame_handleBreach (s : Tower) (node : Node) (k : Uuid) (d p : TxId) (u : User) :
    FrameK k s (handleBreach s node k d p u).1 := by
  unfold handleBreach
  split
  · split
    · exact frame_abort k s _
    · exact frame_addTracker k s _
  · split
    · exact frame_addTracker k s _
    · simp only
      have h1 : FrameK k s { s with mem := (carrierSend s.mem node p).1 } :=
        frame_mem_only k s _ (carrierSend_users _ _ _)
      split
      · exact h1.trans (frame_addTracker k _ _)
      · exact h1

theorem frame_removeAppts_single (k : Uuid) (s : Tower) :
    FrameK k s { s with db := s.db.removeAppts [k] } := by
  refine ⟨fun _ _ => by simp, fun _ _ => rfl, fun k' hk => ?_, fun k' hk => ?_⟩
  · simp [Db.removeAppts_appts, hk]
  · exact Db.removeAppts_trackers_ne _ _ _ (by simpa using hk)

theorem frame_deleteAppointments_single_norefund (k : Uuid) (s : Tower) :
    FrameK k s (deleteAppointments s [k] false) := by
  unfold deleteAppointments
  simp only [Bool.false_eq_true, ↓reduceIte]
  exact frame_removeAppts_single k s

theorem frame_storeAppointment (s : Tower) (k : Uuid) (a : Appt) : FrameK k s (storeAppointment s k a) := by
  unfold storeAppointment
  split
  · split
    · rename_i db' h
      unfold Db.updateAppt at h
      split at h
      · cases h
      · cases h
        exact ⟨fun _ _ => rfl, fun _ _ => rfl, fun k' hk => by simp [hk], fun _ _ => rfl⟩
    · exact frame_abort k s _
  · split
    · rename_i db' h
      unfold Db.storeAppt at h
      split at h
      · cases h
        exact ⟨fun _ _ => rfl, fun _ _ => rfl, fun k' hk => by simp [hk], fun _ _ => rfl⟩
      · cases h
    · exact frame_abort k s _

theorem frame_storeTriggered (s : Tower) (node : Node) (k : Uuid) (a : Appt) (d : TxId) :
    FrameK k s (storeTriggeredAppointment s node k a d).1 := by
  unfold storeTriggeredAppointment
  split
  · simp only
    have h1 := frame_storeAppointment s k a
    have h2 := frame_handleBreach (storeAppointment s k a) node k d ‹_› a.user
    split
    · exact (h1.trans h2).trans (frame_deleteAppointments_single_norefund k _)
    · exact h1.trans h2
  · exact frame_deleteAppointments_single_norefund k s


@[simp] theorem Db.updateUser_appts (d : Db) (u : User) (i : UserInfo) : (d.updateUser u i).appts = d.appts := by
  unfold Db.updateUser; split <;> rfl
@[simp] theorem Db.updateUser_trackers (d : Db) (u : User) (i : UserInfo) : (d.updateUser u i).trackers = d.trackers := by
  unfold Db.updateUser; split <;> rfl
theorem Db.updateUser_users_ne (d : Db) (u : User) (i : UserInfo) (x : User) (h : x ≠ u) :
    (d.updateUser u i).users x = d.users x := by
  unfold Db.updateUser; split
  · rfl
  · simp [h]
@[simp] theorem Db.setSlots_appts (d : Db) (u : User) (n : Nat) : (d.setSlots u n).appts = d.appts := by
  unfold Db.setSlots; split <;> rfl
@[simp] theorem Db.setSlots_trackers (d : Db) (u : User) (n : Nat) : (d.setSlots u n).trackers = d.trackers := by
  unfold Db.setSlots; split <;> rfl

theorem frame_addUpdateAppointment (s : Tower) (l : Loc) (u : User) (len : Nat) :
    FrameK (l, u) s (addUpdateAppointment s u (l, u) len).1 := by
  unfold addUpdateAppointment
  split
  · exact frame_abort _ s _
  · simp only
    split
    · refine ⟨fun u' hu => ?_, fun u' hu => ?_, fun _ _ => by simp, fun _ _ => by simp⟩
      · exact Db.updateUser_users_ne _ _ _ _ hu
      · simp only; rw [if_neg hu]
    · exact FrameK.refl _ s

/-- **the frame of a submission**: `add_appointment` by `u` for locator `l` touches nothing but
the record of `u` and what is stored under `(l, u)` -/
theorem frame_addAppointment (s : Tower) (node : Node) (signer : Option User) (l : Loc) (b : Blob)
    (tsd usig : Nat) (u : User) (ui : UserInfo) (ha : authCheck s signer = .ok (u, ui)) :
    FrameK (l, u) s (addAppointment s node signer l b tsd usig).1 := by
  unfold addAppointment
  rw [ha]
  simp only
  split
  · exact FrameK.refl _ s
  · have h1 := frame_addUpdateAppointment s l u b.len
    split
    · rename_i s1 heq
      rw [heq] at h1; exact h1
    · rename_i s1 avail heq
      rw [heq] at h1
      simp only
      split
      · exact h1.trans (frame_storeTriggered s1 node (l, u) _ _)
      · exact h1.trans (frame_storeAppointment s1 (l, u) _)

end Teos

namespace Teos

/-- generic: a property of the accumulator preserved by every iteration holds after the loop -/
theorem foldl_preserves {α β : Type} (P : β → Prop) (f : β → α → β)
    (hstep : ∀ acc x, P acc → P (f acc x)) : ∀ (l : List α) (init : β), P init → P (l.foldl f init)
  | [], _, h => h
  | x :: r, init, h => foldl_preserves P f hstep r (f init x) (hstep init x h)

theorem abort_mem (s : Tower) (site : String) : (s.abort site).mem = s.mem := by
  unfold Tower.abort; split <;> rfl
theorem abort_db (s : Tower) (site : String) : (s.abort site).db = s.db := by
  unfold Tower.abort; split <;> rfl

theorem Db.updateTrackerStatus_users {d d' : Db} {k : Uuid} {st : CStatus}
    (h : d.updateTrackerStatus k st = some d') : d'.users = d.users ∧ d'.appts = d.appts := by
  unfold Db.updateTrackerStatus at h
  split at h
  · cases h
  · split at h
    · cases h
    · cases h; exact ⟨rfl, rfl⟩

theorem confirmStep_users (txids : List TxId) (height : Nat) (acc : Tower × List Uuid) (k : Uuid) :
    (confirmStep txids height acc k).1.mem.users = acc.1.mem.users ∧
    (confirmStep txids height acc k).1.db.users = acc.1.db.users := by
  obtain ⟨s, done⟩ := acc
  unfold confirmStep
  simp only
  split
  · exact ⟨rfl, rfl⟩
  · split
    · split
      · simp [abort_mem, abort_db]
      · rename_i h; exact ⟨rfl, (Db.updateTrackerStatus_users h).1⟩
    · split
      · exact ⟨rfl, rfl⟩
      · split
        · split <;> exact ⟨rfl, rfl⟩
        · exact ⟨rfl, rfl⟩

theorem checkConfirmations_users (s : Tower) (txids : List TxId) (height : Nat) :
    (checkConfirmations s txids height).1.mem.users = s.mem.users ∧
    (checkConfirmations s txids height).1.db.users = s.db.users := by
  unfold checkConfirmations
  exact foldl_preserves (fun (acc : Tower × List Uuid) => acc.1.mem.users = s.mem.users ∧ acc.1.db.users = s.db.users) _
    (fun acc x h => by
      have := confirmStep_users txids height acc x
      exact ⟨this.1.trans h.1, this.2.trans h.2⟩) _ _ ⟨rfl, rfl⟩

theorem reorgStep_users (node : Node) (height : Nat) (acc : Tower × List Uuid × List Rpc) (k : Uuid) :
    (reorgStep node height acc k).1.mem.users = acc.1.mem.users ∧
    (reorgStep node height acc k).1.db.users = acc.1.db.users := by
  obtain ⟨s, rej, log⟩ := acc
  unfold reorgStep
  simp only
  split
  · exact ⟨rfl, rfl⟩
  · split
    · simp [abort_mem, abort_db, carrierSend_users]
    · simp [carrierSend_users]
    · split
      · simp [carrierSend_users]
      · split
        · simp [abort_mem, abort_db, carrierSend_users]
        · rename_i h
          simp only [carrierSend_users]
          exact ⟨trivial, (Db.updateTrackerStatus_users h).1⟩

theorem handleReorgedTxs_users (s : Tower) (node : Node) (height : Nat) :
    (handleReorgedTxs s node height).1.mem.users = s.mem.users ∧
    (handleReorgedTxs s node height).1.db.users = s.db.users := by
  unfold handleReorgedTxs
  exact foldl_preserves (fun (acc : Tower × List Uuid × List Rpc) => acc.1.mem.users = s.mem.users ∧ acc.1.db.users = s.db.users) _
    (fun acc x h => by
      have := reorgStep_users node height acc x
      exact ⟨this.1.trans h.1, this.2.trans h.2⟩) _ _ ⟨rfl, rfl⟩

theorem rebroadcastStep_users (node : Node) (height : Nat) (acc : Tower × List Uuid × List Rpc) (k : Uuid) :
    (rebroadcastStep node height acc k).1.mem.users = acc.1.mem.users ∧
    (rebroadcastStep node height acc k).1.db.users = acc.1.db.users := by
  obtain ⟨s, rej, log⟩ := acc
  unfold rebroadcastStep
  simp only
  split
  · simp [abort_mem, abort_db]
  · split
    · simp [carrierSend_users]
    · split
      · simp [abort_mem, abort_db, carrierSend_users]
      · rename_i h
        simp only [carrierSend_users]
        exact ⟨trivial, (Db.updateTrackerStatus_users h).1⟩

theorem rebroadcastStaleTxs_users (s : Tower) (node : Node) (height : Nat) :
    (rebroadcastStaleTxs s node height).1.mem.users = s.mem.users ∧
    (rebroadcastStaleTxs s node height).1.db.users = s.db.users := by
  unfold rebroadcastStaleTxs
  split
  · simp [abort_mem, abort_db]
  · exact foldl_preserves (fun (acc : Tower × List Uuid × List Rpc) => acc.1.mem.users = s.mem.users ∧ acc.1.db.users = s.db.users) _
      (fun acc x h => by
        have := rebroadcastStep_users node height acc x
        exact ⟨this.1.trans h.1, this.2.trans h.2⟩) _ _ ⟨rfl, rfl⟩

theorem deleteAppointments_norefund_users (s : Tower) (ks : List Uuid) :
    (deleteAppointments s ks false).mem.users = s.mem.users ∧
    (deleteAppointments s ks false).db.users = s.db.users := by
  simp [deleteAppointments]

end Teos

namespace Teos

/-! ### what the node is asked, and what a tracker requires -/

theorem carrierSend_log (m : Mem) (node : Node) (tx : TxId) :
    (carrierSend m node tx).2.2 = [] ∨ (carrierSend m node tx).2.2 = [.send tx] := by
  unfold carrierSend; split
  · exact Or.inl rfl
  · exact Or.inr rfl

/-- a fresh (not memoised) submission is one `sendrawtransaction` whose verdict is the node's -/
theorem carrierSend_fresh (m : Mem) (node : Node) (tx : TxId) (h : m.receipts tx = none) :
    carrierSend m node tx =
      ({ m with receipts := fun x => if x = tx then some (sendVerdict m.cHeight (node.send tx)) else m.receipts x },
       sendVerdict m.cHeight (node.send tx), [.send tx]) := by
  unfold carrierSend; rw [h]

theorem handleBreach_users (s : Tower) (node : Node) (k : Uuid) (d p : TxId) (u : User) :
    (handleBreach s node k d p u).1.mem.users = s.mem.users ∧
    (handleBreach s node k d p u).1.db.users = s.db.users := by
  have addT : ∀ (s : Tower) (t : Tracker), (addTracker s k t).mem.users = s.mem.users ∧ (addTracker s k t).db.users = s.db.users := by
    intro s t
    unfold addTracker Db.storeTracker
    split
    · rename_i db' h
      split at h
      · cases h
      · split at h
        · cases h; exact ⟨rfl, rfl⟩
        · cases h
    · exact ⟨rfl, rfl⟩
  unfold handleBreach
  split
  · split
    · simp [abort_mem, abort_db]
    · exact addT s _
  · split
    · exact addT s _
    · simp only
      split
      · have := addT { s with mem := (carrierSend s.mem node p).1 }
          { dispute := d, penalty := p, status := (carrierSend s.mem node p).2.1, user := u }
        exact ⟨this.1.trans (carrierSend_users _ _ _), this.2⟩
      · exact ⟨carrierSend_users _ _ _, rfl⟩

theorem storeAppointment_users (s : Tower) (k : Uuid) (a : Appt) :
    (storeAppointment s k a).mem.users = s.mem.users ∧ (storeAppointment s k a).db.users = s.db.users := by
  unfold storeAppointment
  split
  · split
    · rename_i db' h
      unfold Db.updateAppt at h
      split at h
      · cases h
      · cases h; exact ⟨rfl, rfl⟩
    · simp [abort_mem, abort_db]
  · split
    · rename_i db' h
      unfold Db.storeAppt at h
      split at h
      · cases h; exact ⟨rfl, rfl⟩
      · cases h
    · simp [abort_mem, abort_db]

theorem storeTriggered_users (s : Tower) (node : Node) (k : Uuid) (a : Appt) (d : TxId) :
    (storeTriggeredAppointment s node k a d).1.mem.users = s.mem.users ∧
    (storeTriggeredAppointment s node k a d).1.db.users = s.db.users := by
  unfold storeTriggeredAppointment
  split
  · simp only
    have h1 := storeAppointment_users s k a
    have h2 := handleBreach_users (storeAppointment s k a) node k d ‹_› a.user
    split
    · have h3 := deleteAppointments_norefund_users (handleBreach (storeAppointment s k a) node k d ‹_› a.user).1 [k]
      exact ⟨h3.1.trans (h2.1.trans h1.1), h3.2.trans (h2.2.trans h1.2)⟩
    · exact ⟨h2.1.trans h1.1, h2.2.trans h1.2⟩
  · exact deleteAppointments_norefund_users s [k]

end Teos

namespace Teos

theorem foldl_db_trackers {α : Type} (f : Db → α → Db) (hf : ∀ d u, (f d u).trackers = d.trackers) :
    ∀ (l : List α) (d : Db), (l.foldl f d).trackers = d.trackers
  | [], _ => rfl
  | x :: r, d => by simp only [List.foldl_cons]; rw [foldl_db_trackers f hf r, hf]

theorem foldl_db_appts {α : Type} (f : Db → α → Db) (hf : ∀ d u, (f d u).appts = d.appts) :
    ∀ (l : List α) (d : Db), (l.foldl f d).appts = d.appts
  | [], _ => rfl
  | x :: r, d => by simp only [List.foldl_cons]; rw [foldl_db_appts f hf r, hf]

end Teos
