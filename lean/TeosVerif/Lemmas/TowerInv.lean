/-
A global invariant of the tower model and the proof that every operation keeps it: the database's
referential integrity, agreement of the in-memory user table with the users table, the carrier's
memo never holding a "confirmed" verdict, and the consistency of the responder's transaction
index. Its consequence: on sequential histories no abort site of the model is ever reached
(`Props/C11.lean`, `tower_never_aborts`). Core Lean only.
-/
import TeosVerif.Lemmas.Tower
import TeosVerif.Lemmas.TxIndex

namespace Teos
open TxIndex

/-! ### the database -/

structure DbInv (d : Db) : Prop where
  appt_fk : ∀ k a, d.appts k = some a → a.user = k.2 ∧ (d.users k.2).isSome = true
  tracker_fk : ∀ k t, d.trackers k = some t → (d.appts k).isSome = true ∧ t.status.accepted = true
  user_keys : ∀ u, (d.users u).isSome = true → u ∈ d.userKeys
  appt_keys : ∀ k, (d.appts k).isSome = true → k ∈ d.apptKeys
  appt_nodup : d.apptKeys.Nodup

theorem DbInv.empty : DbInv Db.empty := by
  constructor <;> simp [Db.empty]

theorem mem_addKey {α : Type} [DecidableEq α] (k x : α) (l : List α) :
    x ∈ Db.addKey k l ↔ x = k ∨ x ∈ l := by
  unfold Db.addKey
  split
  · rename_i h
    constructor
    · intro hx; exact Or.inr hx
    · rintro (rfl | hx)
      · exact h
      · exact hx
  · simp [or_comm]

theorem nodup_addKey {α : Type} [DecidableEq α] (k : α) (l : List α) (h : l.Nodup) : (Db.addKey k l).Nodup := by
  unfold Db.addKey
  split
  · exact h
  · rename_i hk
    refine List.nodup_append.mpr ⟨h, by simp, ?_⟩
    intro x hx y hy
    simp only [List.mem_singleton] at hy
    subst hy
    intro e; subst e; exact hk hx

theorem DbInv.storeUser {d d' : Db} (h : DbInv d) {u : User} {i : UserInfo}
    (hs : d.storeUser u i = some d') : DbInv d' := by
  unfold Db.storeUser at hs
  split at hs
  · cases hs
  · simp only [Option.some.injEq] at hs; subst hs
    constructor
    · intro k a ha
      have := h.appt_fk k a ha
      refine ⟨this.1, ?_⟩
      simp only
      split
      · rfl
      · exact this.2
    · exact h.tracker_fk
    · intro x hx
      simp only at hx
      rw [mem_addKey]
      by_cases e : x = u
      · exact Or.inl e
      · simp only [e, ↓reduceIte] at hx; exact Or.inr (h.user_keys x hx)
    · exact h.appt_keys
    · exact h.appt_nodup

theorem DbInv.updateUser {d : Db} (h : DbInv d) (u : User) (i : UserInfo) : DbInv (d.updateUser u i) := by
  unfold Db.updateUser
  split
  · exact h
  · rename_i old ho
    constructor
    · intro k a ha
      have := h.appt_fk k a ha
      refine ⟨this.1, ?_⟩
      simp only
      split
      · rfl
      · exact this.2
    · exact h.tracker_fk
    · intro x hx
      simp only at hx
      by_cases e : x = u
      · subst e; exact h.user_keys x (by simp [ho])
      · simp only [e, ↓reduceIte] at hx; exact h.user_keys x hx
    · exact h.appt_keys
    · exact h.appt_nodup

theorem updateUser_dom (d : Db) (u : User) (i : UserInfo) (x : User) :
    ((d.updateUser u i).users x).isSome = (d.users x).isSome := by
  unfold Db.updateUser
  split
  · rfl
  · rename_i old ho
    simp only
    by_cases e : x = u
    · subst e; simp [ho]
    · simp [e]

theorem DbInv.setSlots {d : Db} (h : DbInv d) (u : User) (n : Nat) : DbInv (d.setSlots u n) := by
  unfold Db.setSlots
  split
  · exact h
  · rename_i old ho
    constructor
    · intro k a ha
      have := h.appt_fk k a ha
      refine ⟨this.1, ?_⟩
      simp only
      split
      · rfl
      · exact this.2
    · exact h.tracker_fk
    · intro x hx
      simp only at hx
      by_cases e : x = u
      · subst e; exact h.user_keys x (by simp [ho])
      · simp only [e, ↓reduceIte] at hx; exact h.user_keys x hx
    · exact h.appt_keys
    · exact h.appt_nodup

theorem setSlots_dom (d : Db) (u : User) (n : Nat) (x : User) :
    ((d.setSlots u n).users x).isSome = (d.users x).isSome := by
  unfold Db.setSlots
  split
  · rfl
  · rename_i old ho
    simp only
    by_cases e : x = u
    · subst e; simp [ho]
    · simp [e]

theorem DbInv.storeAppt {d d' : Db} (h : DbInv d) {k : Uuid} {a : Appt} (hu : a.user = k.2)
    (hs : d.storeAppt k a = some d') : DbInv d' ∧ d'.users = d.users ∧ d'.trackers = d.trackers := by
  unfold Db.storeAppt at hs
  split at hs
  · rename_i hn hsome
    simp only [Option.some.injEq] at hs; subst hs
    refine ⟨?_, rfl, rfl⟩
    constructor
    · intro x b hb
      simp only at hb
      by_cases e : x = k
      · subst e
        simp only [↓reduceIte, Option.some.injEq] at hb
        subst hb
        exact ⟨hu, by rw [← hu]; simp [hsome]⟩
      · simp only [e, ↓reduceIte] at hb
        exact h.appt_fk x b hb
    · intro x t ht
      have := h.tracker_fk x t ht
      refine ⟨?_, this.2⟩
      simp only
      split
      · rfl
      · exact this.1
    · exact h.user_keys
    · intro x hx
      simp only at hx
      rw [mem_addKey]
      by_cases e : x = k
      · exact Or.inl e
      · simp only [e, ↓reduceIte] at hx; exact Or.inr (h.appt_keys x hx)
    · exact nodup_addKey k _ h.appt_nodup
  · cases hs

theorem DbInv.updateAppt {d d' : Db} (h : DbInv d) {k : Uuid} {a : Appt}
    (hs : d.updateAppt k a = some d') : DbInv d' ∧ d'.users = d.users ∧ d'.trackers = d.trackers := by
  unfold Db.updateAppt at hs
  split at hs
  · cases hs
  · rename_i old ho
    simp only [Option.some.injEq] at hs; subst hs
    refine ⟨?_, rfl, rfl⟩
    constructor
    · intro x b hb
      simp only at hb
      by_cases e : x = k
      · subst e
        simp only [↓reduceIte, Option.some.injEq] at hb
        subst hb
        exact h.appt_fk x old ho
      · simp only [e, ↓reduceIte] at hb
        exact h.appt_fk x b hb
    · intro x t ht
      have := h.tracker_fk x t ht
      refine ⟨?_, this.2⟩
      simp only
      split
      · rfl
      · exact this.1
    · exact h.user_keys
    · intro x hx
      simp only at hx
      by_cases e : x = k
      · subst e; exact h.appt_keys x (by simp [ho])
      · simp only [e, ↓reduceIte] at hx; exact h.appt_keys x hx
    · exact h.appt_nodup

theorem DbInv.storeTracker {d d' : Db} (h : DbInv d) {k : Uuid} {t : Tracker}
    (hs : d.storeTracker k t = some d') : DbInv d' ∧ d'.users = d.users ∧ d'.appts = d.appts := by
  unfold Db.storeTracker at hs
  split at hs
  · cases hs
  · rename_i hacc
    split at hs
    · rename_i hn hsome
      simp only [Option.some.injEq] at hs; subst hs
      refine ⟨?_, rfl, rfl⟩
      constructor
      · exact h.appt_fk
      · intro x t' ht
        simp only at ht
        by_cases e : x = k
        · subst e
          simp only [↓reduceIte, Option.some.injEq] at ht
          subst ht
          exact ⟨by simp [hsome], by simpa using hacc⟩
        · simp only [e, ↓reduceIte] at ht
          exact h.tracker_fk x t' ht
      · exact h.user_keys
      · exact h.appt_keys
      · exact h.appt_nodup
    · cases hs

theorem DbInv.updateTrackerStatus {d d' : Db} (h : DbInv d) {k : Uuid} {st : CStatus}
    (hs : d.updateTrackerStatus k st = some d') :
    DbInv d' ∧ d'.users = d.users ∧ d'.appts = d.appts ∧
      ∀ x, (d'.trackers x).isSome = (d.trackers x).isSome := by
  unfold Db.updateTrackerStatus at hs
  split at hs
  · cases hs
  · rename_i hacc
    split at hs
    · cases hs
    · rename_i t ht
      simp only [Option.some.injEq] at hs; subst hs
      refine ⟨?_, rfl, rfl, ?_⟩
      · constructor
        · exact h.appt_fk
        · intro x t' ht'
          simp only at ht'
          by_cases e : x = k
          · subst e
            simp only [↓reduceIte, Option.some.injEq] at ht'
            subst ht'
            exact ⟨(h.tracker_fk x t ht).1, by simpa using hacc⟩
          · simp only [e, ↓reduceIte] at ht'
            exact h.tracker_fk x t' ht'
        · exact h.user_keys
        · exact h.appt_keys
        · exact h.appt_nodup
      · intro x
        simp only
        by_cases e : x = k
        · subst e; simp [ht]
        · simp [e]

/-- an update of an existing tracker with a storable status always succeeds -/
theorem updateTrackerStatus_some (d : Db) (k : Uuid) (st : CStatus) (t : Tracker)
    (ht : d.trackers k = some t) (hacc : st.accepted = true) :
    ∃ d', d.updateTrackerStatus k st = some d' := by
  unfold Db.updateTrackerStatus
  simp [hacc, ht]

theorem DbInv.dropAppts {d : Db} (h : DbInv d) (ks : List Uuid) : DbInv (d.dropAppts ks) := by
  constructor
  · intro k a ha
    simp only [Db.dropAppts] at ha ⊢
    split at ha
    · cases ha
    · exact h.appt_fk k a ha
  · intro k t ht
    simp only [Db.dropAppts] at ht ⊢
    split at ht
    · cases ht
    · rename_i hk
      simp only [hk, ↓reduceIte]
      exact h.tracker_fk k t ht
  · exact h.user_keys
  · intro k hk
    simp only [Db.dropAppts] at hk
    split at hk
    · cases hk
    · exact h.appt_keys k hk
  · exact h.appt_nodup

theorem DbInv.log_irrelevant {d : Db} (h : DbInv d) (l : List DbWrite) : DbInv { d with log := l } :=
  ⟨h.appt_fk, h.tracker_fk, h.user_keys, h.appt_keys, h.appt_nodup⟩

theorem DbInv.removeAppts {d : Db} (h : DbInv d) (ks : List Uuid) : DbInv (d.removeAppts ks) := by
  unfold Db.removeAppts
  split
  · split
    · exact (h.dropAppts _).log_irrelevant _
    · exact h
  · exact (h.dropAppts _).log_irrelevant _

theorem removeAppts_users (d : Db) (ks : List Uuid) : (d.removeAppts ks).users = d.users := by
  unfold Db.removeAppts
  split
  · split <;> rfl
  · rfl

theorem foldl_setSlots_inv (bal : List (User × Nat)) : ∀ (d : Db), DbInv d →
    DbInv (bal.foldl (fun d (b : User × Nat) => d.setSlots b.1 b.2) d) := by
  induction bal with
  | nil => intro d h; exact h
  | cons b bs ih => intro d h; exact ih _ (h.setSlots b.1 b.2)

theorem foldl_setSlots_dom (bal : List (User × Nat)) : ∀ (d : Db) (x : User),
    ((bal.foldl (fun d (b : User × Nat) => d.setSlots b.1 b.2) d).users x).isSome = (d.users x).isSome := by
  induction bal with
  | nil => intro d x; rfl
  | cons b bs ih => intro d x; simp only [List.foldl_cons]; rw [ih, setSlots_dom]

theorem DbInv.removeApptsRefund {d : Db} (h : DbInv d) (ks : List Uuid) (bal : List (User × Nat)) :
    DbInv (d.removeApptsRefund ks bal) := by
  unfold Db.removeApptsRefund
  exact (foldl_setSlots_inv bal _ (h.dropAppts ks)).log_irrelevant _

theorem removeApptsRefund_dom (d : Db) (ks : List Uuid) (bal : List (User × Nat)) (x : User) :
    ((d.removeApptsRefund ks bal).users x).isSome = (d.users x).isSome := by
  unfold Db.removeApptsRefund
  simp only
  rw [foldl_setSlots_dom]
  rfl

theorem DbInv.removeUsers {d : Db} (h : DbInv d) (us : List User) : DbInv (d.removeUsers us) := by
  constructor
  · intro k a ha
    simp only [Db.removeUsers] at ha ⊢
    split at ha
    · cases ha
    · rename_i hk
      have := h.appt_fk k a ha
      refine ⟨this.1, ?_⟩
      simp only [hk, ↓reduceIte]
      exact this.2
  · intro k t ht
    simp only [Db.removeUsers] at ht ⊢
    split at ht
    · cases ht
    · rename_i hk
      simp only [hk, ↓reduceIte]
      exact h.tracker_fk k t ht
  · intro u hu
    simp only [Db.removeUsers] at hu ⊢
    split at hu
    · cases hu
    · exact h.user_keys u hu
  · intro k hk
    simp only [Db.removeUsers] at hk ⊢
    split at hk
    · cases hk
    · exact h.appt_keys k hk
  · exact h.appt_nodup

end Teos

namespace Teos
open TxIndex

/-! ### the responder's transaction index -/

/-- every entry of the index points to a block the index still holds, and is listed under it -/
def TIInv {K : Type} [DecidableEq K] (t : TxIndex K Nat) : Prop :=
  ∀ k v, t.index k = some v → v ∈ t.blocks ∧ ∃ ks, t.txIn v = some ks ∧ k ∈ ks

theorem position_isSome_of_mem (b : Nat) : ∀ (l : List Nat), b ∈ l → (position b l).isSome = true := by
  intro l
  induction l with
  | nil => intro h; cases h
  | cons x r ih =>
    intro h
    simp only [position]
    by_cases e : x = b
    · simp [e]
    · simp only [e, ↓reduceIte, Option.isSome_map]
      simp only [List.mem_cons] at h
      rcases h with h | h
      · exact absurd h.symm e
      · exact ih h

/-- what the index finds has a height: `get_height(..).unwrap()` in `handle_breach` is safe -/
theorem TIInv.getHeight_some {K : Type} [DecidableEq K] {t : TxIndex K Nat} (h : TIInv t) {k : K} {b : Nat}
    (hg : t.get k = some b) : (t.getHeight b).isSome = true := by
  unfold TxIndex.getHeight
  simp only [Option.isSome_map]
  exact position_isSome_of_mem b _ (h k b hg).1

theorem TIInv.empty {K : Type} [DecidableEq K] (size tip : Nat) : TIInv (TxIndex.empty size tip : TxIndex K Nat) := by
  intro k v h; simp [TxIndex.empty] at h

theorem TIInv.removeOldest {K : Type} [DecidableEq K] {t : TxIndex K Nat} (h : TIInv t) : TIInv t.removeOldest := by
  unfold TxIndex.removeOldest
  cases hb : t.blocks with
  | nil => simpa [hb] using h
  | cons hd rest =>
    simp only
    intro k v hk
    simp only at hk
    split at hk
    · cases hk
    · rename_i hnot
      obtain ⟨hv, ks, hks, hmem⟩ := h k v hk
      have hne : v ≠ hd := by
        intro e
        subst e
        rw [hks] at hnot
        simp only [Option.getD_some] at hnot
        exact hnot hmem
      refine ⟨?_, ks, ?_, hmem⟩
      · rw [hb] at hv
        simp only [List.mem_cons] at hv
        rcases hv with hv | hv
        · exact absurd hv hne
        · exact hv
      · simp [hne, hks]

theorem lookup_value_of_all {K : Type} [DecidableEq K] (b : Nat) (k : K) :
    ∀ (d : List (K × Nat)), (∀ p ∈ d, p.2 = b) → ∀ w, lookup k d = some w → w = b := by
  intro d
  induction d with
  | nil => intro _ w hw; simp [lookup] at hw
  | cons p ps ih =>
    intro hd w hw
    obtain ⟨pk, pv⟩ := p
    simp only [lookup] at hw
    split at hw
    · simp only [Option.some.injEq] at hw; subst hw; exact hd (pk, pv) (by simp)
    · exact ih (fun q hq => hd q (by simp [hq])) w hw

/-- the state right after the push of `update`, characterised without its `match` -/
theorem TIInv.push {K : Type} [DecidableEq K] {t t1 : TxIndex K Nat} (h : TIInv t) (b : Nat) (data : List (K × Nat))
    (hb : b ∉ t.blocks) (hd : ∀ p ∈ data, p.2 = b)
    (hblocks : t1.blocks = t.blocks ++ [b])
    (hidx1 : ∀ k w, lookup k data = some w → t1.index k = some w)
    (hidx2 : ∀ k, lookup k data = none → t1.index k = t.index k)
    (htx : ∀ x, t1.txIn x = if x = b then some (data.map (·.1)) else t.txIn x) : TIInv t1 := by
  intro k v hk
  cases hl : lookup k data with
  | some w =>
    rw [hidx1 k w hl] at hk
    simp only [Option.some.injEq] at hk
    subst hk
    have hmem := TxIndex.mem_of_lookup_some hl
    have hw : w = b := lookup_value_of_all b k data hd w hl
    subst hw
    exact ⟨by rw [hblocks]; simp, data.map (·.1), by rw [htx]; simp, hmem⟩
  | none =>
    rw [hidx2 k hl] at hk
    obtain ⟨hv, ks, hks, hm⟩ := h k v hk
    have hne : v ≠ b := fun e => hb (e ▸ hv)
    exact ⟨by rw [hblocks]; simp [hv], ks, by rw [htx]; simp [hne, hks], hm⟩

theorem TIInv.update {K : Type} [DecidableEq K] {t : TxIndex K Nat} (h : TIInv t) (b : Nat) (data : List (K × Nat))
    (hb : b ∉ t.blocks) (hd : ∀ p ∈ data, p.2 = b) : TIInv (t.update b data) := by
  unfold TxIndex.update
  simp only
  split
  · apply TIInv.removeOldest
    exact h.push b data hb hd rfl (fun k w hl => by simp only [hl]) (fun k hl => by simp only [hl]) (fun x => rfl)
  · exact h.push b data hb hd rfl (fun k w hl => by simp only [hl]) (fun k hl => by simp only [hl]) (fun x => rfl)

/-- disconnecting the tip (or a block the index does not know) keeps the index consistent -/
theorem TIInv.removeDisconnected {K : Type} [DecidableEq K] {t : TxIndex K Nat} (h : TIInv t) (b : Nat)
    (hv : t.txIn b = none ∨ t.blocks.getLast? = some b) : TIInv (t.removeDisconnected b) := by
  unfold TxIndex.removeDisconnected
  cases hb : t.txIn b with
  | none => simpa [hb] using h
  | some ks =>
    simp only
    have hlast : t.blocks.getLast? = some b := by
      rcases hv with hv | hv
      · rw [hb] at hv; cases hv
      · exact hv
    intro k v hk
    simp only at hk
    split at hk
    · cases hk
    · rename_i hnot
      obtain ⟨hvm, ks', hks', hm⟩ := h k v hk
      have hne : v ≠ b := by
        intro e
        subst e
        rw [hb] at hks'
        simp only [Option.some.injEq] at hks'
        subst hks'
        exact hnot hm
      refine ⟨?_, ks', by simp [hne, hks'], hm⟩
      -- v is in the list and is not its last element
      have : ∀ (l : List Nat), v ∈ l → l.getLast? = some b → v ∈ l.dropLast := by
        intro l
        induction l with
        | nil => intro h1; cases h1
        | cons x r ih =>
          intro h1 h2
          cases r with
          | nil =>
            simp only [List.getLast?_singleton, Option.some.injEq] at h2
            simp only [List.mem_singleton] at h1
            exact absurd (h1.trans h2) hne
          | cons y r' =>
            simp only [List.dropLast_cons_cons, List.mem_cons]
            simp only [List.mem_cons] at h1
            rcases h1 with h1 | h1
            · exact Or.inl h1
            · right
              have h2' : (y :: r').getLast? = some b := by
                simpa [List.getLast?_cons_cons] using h2
              have := ih (by simpa using h1) h2'
              simpa using this
      exact this t.blocks hvm hlast

end Teos

namespace Teos
open TxIndex

/-! ### the tower -/

structure TInv (s : Tower) : Prop where
  alive : s.aborted = none
  db : DbInv s.db
  dom : ∀ u, (s.mem.users u).isSome = (s.db.users u).isSome
  memo : ∀ tx r, s.mem.receipts tx = some r → ∀ h, r ≠ .confirmedIn h
  txi : TIInv s.mem.txIndex

/-- `s'` comes from `s` by steps that keep the invariant and delete nothing -/
structure Grows (s s' : Tower) : Prop where
  inv : TInv s → TInv s'
  appts : s'.db.appts = s.db.appts
  trk : ∀ k, (s.db.trackers k).isSome = true → (s'.db.trackers k).isSome = true
  txi : s'.mem.txIndex = s.mem.txIndex
  users : s'.mem.users = s.mem.users

theorem Grows.refl (s : Tower) : Grows s s := ⟨id, rfl, fun _ h => h, rfl, rfl⟩

theorem Grows.trans {a b c : Tower} (h1 : Grows a b) (h2 : Grows b c) : Grows a c :=
  ⟨fun h => h2.inv (h1.inv h), by rw [h2.appts, h1.appts], fun k h => h2.trk k (h1.trk k h),
   by rw [h2.txi, h1.txi], by rw [h2.users, h1.users]⟩

theorem sendVerdict_not_confirmed (height : Nat) (r : SendReply) (h : Nat) :
    sendVerdict height r ≠ .confirmedIn h := by
  unfold sendVerdict
  cases r with
  | ok => intro e; cases e
  | other => intro e; cases e
  | rpc c =>
    simp only
    split <;> intro e <;> cases e

/-- the carrier: only its memo changes, and it never reports "confirmed" -/
theorem carrierSend_spec (m : Mem) (node : Node) (tx : TxId)
    (hm : ∀ t r, m.receipts t = some r → ∀ h, r ≠ .confirmedIn h) :
    let r := carrierSend m node tx
    (∀ t x, r.1.receipts t = some x → ∀ h, x ≠ .confirmedIn h) ∧ (∀ h, r.2.1 ≠ .confirmedIn h) ∧
    r.1.users = m.users ∧ r.1.txIndex = m.txIndex := by
  unfold carrierSend
  cases hr : m.receipts tx with
  | some x => exact ⟨hm, hm tx x hr, rfl, rfl⟩
  | none =>
    simp only
    refine ⟨?_, sendVerdict_not_confirmed _ _, trivial, trivial⟩
    intro t x hx h
    by_cases e : t = tx
    · subst e
      simp only [↓reduceIte, Option.some.injEq] at hx
      subst hx
      exact sendVerdict_not_confirmed _ _ h
    · simp only [e, ↓reduceIte] at hx
      exact hm t x hx h

theorem grows_mem (s : Tower) (m : Mem) (hu : m.users = s.mem.users) (ht : m.txIndex = s.mem.txIndex)
    (hm : TInv s → ∀ t r, m.receipts t = some r → ∀ h, r ≠ .confirmedIn h) :
    Grows s { s with mem := m } :=
  ⟨fun h => ⟨h.alive, h.db, by intro u; rw [hu]; exact h.dom u, hm h, by rw [ht]; exact h.txi⟩,
   rfl, fun _ h => h, ht, hu⟩

theorem grows_addTracker (s : Tower) (k : Uuid) (t : Tracker) : Grows s (addTracker s k t) := by
  unfold addTracker
  cases hs : s.db.storeTracker k t with
  | none => exact Grows.refl s
  | some db' =>
    refine ⟨fun h => ?_, ?_, ?_, rfl, rfl⟩
    · obtain ⟨hi, hu, _⟩ := h.db.storeTracker hs
      exact ⟨h.alive, hi, by intro u; simp only; rw [hu]; exact h.dom u, h.memo, h.txi⟩
    · unfold Db.storeTracker at hs
      split at hs
      · cases hs
      · split at hs
        · simp only [Option.some.injEq] at hs; subst hs; rfl
        · cases hs
    · intro x hx
      unfold Db.storeTracker at hs
      split at hs
      · cases hs
      · split at hs
        · simp only [Option.some.injEq] at hs; subst hs
          simp only
          split
          · rfl
          · exact hx
        · cases hs

/-- `handle_breach` under the invariant: no abort, nothing deleted -/
theorem grows_handleBreach (s : Tower) (node : Node) (k : Uuid) (d p : TxId) (u : User) (h : TInv s) :
    Grows s (handleBreach s node k d p u).1 := by
  unfold handleBreach
  cases hg : s.mem.txIndex.get p with
  | some b =>
    have := h.txi.getHeight_some hg
    obtain ⟨hh, hhe⟩ := Option.isSome_iff_exists.mp this
    simp only [hhe]
    exact grows_addTracker s k _
  | none =>
    simp only
    split
    · exact grows_addTracker s k _
    · have hc := carrierSend_spec s.mem node p h.memo
      simp only at hc
      have g1 : Grows s { s with mem := (carrierSend s.mem node p).1 } :=
        grows_mem s _ hc.2.2.1 hc.2.2.2 (fun _ => hc.1)
      split
      · exact g1.trans (grows_addTracker _ k _)
      · exact g1

end Teos

namespace Teos
open TxIndex

/-- a loop whose body, from a consistent state, only grows the state -/
theorem grows_foldl {α β : Type} (f : Tower × β → α → Tower × β)
    (hf : ∀ acc a, TInv acc.1 → Grows acc.1 (f acc a).1) :
    ∀ (xs : List α) (acc : Tower × β), TInv acc.1 → Grows acc.1 (xs.foldl f acc).1 := by
  intro xs
  induction xs with
  | nil => intro acc _; exact Grows.refl _
  | cons x xs ih =>
    intro acc h
    have g1 := hf acc x h
    exact g1.trans (ih _ (g1.inv h))

theorem grows_confirmStep (txids : List TxId) (height : Nat) (acc : Tower × List Uuid) (k : Uuid)
    (h : TInv acc.1) : Grows acc.1 (confirmStep txids height acc k).1 := by
  obtain ⟨s, done⟩ := acc
  unfold confirmStep
  simp only
  cases ht : s.db.trackers k with
  | none => exact Grows.refl _
  | some t =>
    simp only
    split
    · obtain ⟨d', hd'⟩ := updateTrackerStatus_some s.db k (.confirmedIn height) t ht rfl
      simp only [hd']
      obtain ⟨hi, hu, ha, hk⟩ := h.db.updateTrackerStatus hd'
      refine ⟨fun hh => ⟨hh.alive, hi, by intro u; simp only; rw [hu]; exact hh.dom u, hh.memo, hh.txi⟩,
        ha, fun x hx => by simp only; rw [hk]; exact hx, rfl, rfl⟩
    · split
      · exact Grows.refl _
      · split
        · split
          · exact Grows.refl _
          · exact Grows.refl _
        all_goals exact Grows.refl _

theorem grows_checkConfirmations (s : Tower) (txids : List TxId) (height : Nat) (h : TInv s) :
    Grows s (checkConfirmations s txids height).1 := by
  unfold checkConfirmations
  exact grows_foldl _ (fun acc a ha => grows_confirmStep txids height acc a ha) _ (s, []) h

/-- the trackers `check_confirmations` reports as completed exist -/
theorem checkConfirmations_completed_exist (s : Tower) (txids : List TxId) (height : Nat) (h : TInv s) :
    ∀ k ∈ (checkConfirmations s txids height).2, (s.db.trackers k).isSome = true := by
  unfold checkConfirmations
  -- invariant: everything in `done` is a tracker of the initial state
  suffices ∀ (xs : List Uuid) (acc : Tower × List Uuid),
      (∀ x, (acc.1.db.trackers x).isSome = (s.db.trackers x).isSome) →
      (∀ k ∈ acc.2, (s.db.trackers k).isSome = true) →
      ∀ k ∈ (xs.foldl (confirmStep txids height) acc).2, (s.db.trackers k).isSome = true from
    this _ (s, []) (fun _ => rfl) (by simp)
  intro xs
  induction xs with
  | nil => intro acc _ hd; exact hd
  | cons x xs ih =>
    intro acc hsame hd
    apply ih
    · intro y
      obtain ⟨a, done⟩ := acc
      unfold confirmStep
      simp only
      cases ht : a.db.trackers x with
      | none => exact hsame y
      | some t =>
        simp only
        split
        · obtain ⟨d', hd'⟩ := updateTrackerStatus_some a.db x (.confirmedIn height) t ht rfl
          simp only [hd']
          unfold Db.updateTrackerStatus at hd'
          simp only [CStatus.accepted, Bool.not_true, Bool.false_eq_true, ↓reduceIte, ht,
            Option.some.injEq] at hd'
          subst hd'
          simp only
          by_cases e : y = x
          · subst e; simp only [↓reduceIte, Option.isSome_some]; rw [← hsame, ht]; rfl
          · simp only [e, ↓reduceIte]; exact hsame y
        · split
          · exact hsame y
          · split
            · split <;> exact hsame y
            all_goals exact hsame y
    · obtain ⟨a, done⟩ := acc
      unfold confirmStep
      simp only
      cases ht : a.db.trackers x with
      | none => exact hd
      | some t =>
        simp only
        split
        · obtain ⟨d', hd'⟩ := updateTrackerStatus_some a.db x (.confirmedIn height) t ht rfl
          simp only [hd']; exact hd
        · split
          · exact hd
          · split
            · split
              · intro k hk
                simp only [List.mem_append, List.mem_singleton] at hk
                rcases hk with hk | rfl
                · exact hd k hk
                · rw [← hsame, ht]; rfl
              · exact hd
            all_goals exact hd

end Teos

namespace Teos
open TxIndex

/-! ### deletions -/

theorem tinv_delete_norefund (s : Tower) (ks : List Uuid) (h : TInv s) :
    TInv (deleteAppointments s ks false) ∧ (deleteAppointments s ks false).mem = s.mem := by
  unfold deleteAppointments
  simp only [Bool.false_eq_true, ↓reduceIte]
  refine ⟨⟨h.alive, h.db.removeAppts ks, ?_, h.memo, h.txi⟩, trivial⟩
  intro u
  simp only
  rw [removeAppts_users]
  exact h.dom u

/-- the refund loop: memory only, same towers listed, no abort when every key has its row -/
theorem refund_loop (s0 : Tower) (h0 : TInv s0) : ∀ (ks : List Uuid) (acc : Tower × List User),
    (∀ k ∈ ks, (s0.db.appts k).isSome = true) →
    acc.1.db = s0.db → acc.1.aborted = none →
    (∀ u, (acc.1.mem.users u).isSome = (s0.mem.users u).isSome) →
    acc.1.mem.receipts = s0.mem.receipts → acc.1.mem.txIndex = s0.mem.txIndex →
    let r := ks.foldl refundStep acc
    r.1.db = s0.db ∧ r.1.aborted = none ∧ (∀ u, (r.1.mem.users u).isSome = (s0.mem.users u).isSome) ∧
    r.1.mem.receipts = s0.mem.receipts ∧ r.1.mem.txIndex = s0.mem.txIndex := by
  intro ks
  induction ks with
  | nil => intro acc _ h1 h2 h3 h4 h5; exact ⟨h1, h2, h3, h4, h5⟩
  | cons k ks ih =>
    intro acc hk h1 h2 h3 h4 h5
    simp only [List.foldl_cons]
    obtain ⟨s, upd⟩ := acc
    simp only at h1 h2 h3 h4 h5
    have hk0 := hk k (by simp)
    obtain ⟨a, ha⟩ := Option.isSome_iff_exists.mp hk0
    have hfk := h0.db.appt_fk k a ha
    have hu : (s.mem.users a.user).isSome = true := by
      rw [h3, h0.dom, hfk.1]; exact hfk.2
    obtain ⟨ui, hui⟩ := Option.isSome_iff_exists.mp hu
    have hstep : refundStep (s, upd) k =
        ({ s with mem := { s.mem with users := fun x => if x = a.user then some { ui with slots := ui.slots + slotsOf a.blob.len } else s.mem.users x } },
         Db.addKey a.user upd) := by
      unfold refundStep
      simp only [h1, ha, hui]
    rw [hstep]
    apply ih
    · intro x hx; exact hk x (by simp [hx])
    · exact h1
    · exact h2
    · intro u
      simp only
      by_cases e : u = a.user
      · subst e; simp only [↓reduceIte, Option.isSome_some]; rw [← h3, hui]; rfl
      · simp only [e, ↓reduceIte]; exact h3 u
    · exact h4
    · exact h5

theorem tinv_delete_refund (s : Tower) (ks : List Uuid) (h : TInv s)
    (hk : ∀ k ∈ ks, (s.db.appts k).isSome = true) :
    TInv (deleteAppointments s ks true) ∧ (deleteAppointments s ks true).mem.txIndex = s.mem.txIndex ∧
    (deleteAppointments s ks true).mem.reorged = s.mem.reorged := by
  unfold deleteAppointments
  simp only [↓reduceIte]
  obtain ⟨r1, r2, r3, r4, r5⟩ := refund_loop s h ks (s, []) hk rfl h.alive (fun _ => rfl) rfl rfl
  have hre : ∀ (ks : List Uuid) (acc : Tower × List User), (ks.foldl refundStep acc).1.mem.reorged = acc.1.mem.reorged := by
    intro ks
    induction ks with
    | nil => intro acc; rfl
    | cons k ks ih =>
      intro acc
      simp only [List.foldl_cons]
      rw [ih]
      obtain ⟨a, upd⟩ := acc
      unfold refundStep
      simp only
      split
      · simp [Tower.abort]; split <;> rfl
      · split
        · simp [Tower.abort]; split <;> rfl
        · rfl
  refine ⟨⟨r2, ?_, ?_, ?_, ?_⟩, r5, hre ks (s, [])⟩
  · simp only; rw [r1]; exact h.db.removeApptsRefund _ _
  · intro u
    simp only
    rw [r3, r1, removeApptsRefund_dom]
    exact h.dom u
  · simp only; rw [r4]; exact h.memo
  · simp only; rw [r5]; exact h.txi

end Teos

namespace Teos
open TxIndex

/-! ### reorged and stale trackers -/

theorem grows_setMem_reorged (s : Tower) (l : List Uuid) :
    Grows s { s with mem := { s.mem with reorged := l } } :=
  ⟨fun h => ⟨h.alive, h.db, h.dom, h.memo, h.txi⟩, rfl, fun _ h => h, rfl, rfl⟩

theorem grows_reorgStep (node : Node) (height : Nat) (acc : Tower × List Uuid × List Rpc) (k : Uuid)
    (h : TInv acc.1) : Grows acc.1 (reorgStep node height acc k).1 := by
  obtain ⟨s, rej, log⟩ := acc
  unfold reorgStep
  simp only
  cases ht : s.db.trackers k with
  | none => exact Grows.refl _
  | some t =>
    simp only
    have hc1 := carrierSend_spec s.mem node t.dispute h.memo
    simp only at hc1
    have g1 : Grows s { s with mem := (carrierSend s.mem node t.dispute).1 } :=
      grows_mem s _ hc1.2.2.1 hc1.2.2.2 (fun _ => hc1.1)
    cases hst : (carrierSend s.mem node t.dispute).2.1 with
    | confirmedIn x => exact absurd hst (hc1.2.1 x)
    | rejected c => simp only [hst]; exact g1
    | inMempoolSince x =>
      simp only [hst]
      have hc2 := carrierSend_spec (carrierSend s.mem node t.dispute).1 node t.penalty hc1.1
      simp only at hc2
      have g2 : Grows { s with mem := (carrierSend s.mem node t.dispute).1 }
          { s with mem := (carrierSend (carrierSend s.mem node t.dispute).1 node t.penalty).1 } :=
        ⟨fun hh => ⟨hh.alive, hh.db, by intro u; simp only; rw [hc2.2.2.1]; exact hh.dom u, hc2.1,
            by simp only; rw [hc2.2.2.2]; exact hh.txi⟩, rfl, fun _ hx => hx, hc2.2.2.2, hc2.2.2.1⟩
      split
      · exact g1.trans g2
      · obtain ⟨d', hd'⟩ := updateTrackerStatus_some s.db k (.inMempoolSince height) t ht rfl
        simp only [hd']
        obtain ⟨hi, hu, ha, hk⟩ := h.db.updateTrackerStatus hd'
        refine (g1.trans g2).trans ⟨fun hh => ⟨hh.alive, hi, by intro u; simp only; rw [hu]; exact hh.dom u, hh.memo, hh.txi⟩,
          ha, fun x hx => by simp only; rw [hk]; exact hx, rfl, rfl⟩
    | irrevocablyResolved =>
      simp only [hst]
      have hc2 := carrierSend_spec (carrierSend s.mem node t.dispute).1 node t.penalty hc1.1
      simp only at hc2
      have g2 : Grows { s with mem := (carrierSend s.mem node t.dispute).1 }
          { s with mem := (carrierSend (carrierSend s.mem node t.dispute).1 node t.penalty).1 } :=
        ⟨fun hh => ⟨hh.alive, hh.db, by intro u; simp only; rw [hc2.2.2.1]; exact hh.dom u, hc2.1,
            by simp only; rw [hc2.2.2.2]; exact hh.txi⟩, rfl, fun _ hx => hx, hc2.2.2.2, hc2.2.2.1⟩
      split
      · exact g1.trans g2
      · obtain ⟨d', hd'⟩ := updateTrackerStatus_some s.db k (.inMempoolSince height) t ht rfl
        simp only [hd']
        obtain ⟨hi, hu, ha, hk⟩ := h.db.updateTrackerStatus hd'
        refine (g1.trans g2).trans ⟨fun hh => ⟨hh.alive, hi, by intro u; simp only; rw [hu]; exact hh.dom u, hh.memo, hh.txi⟩,
          ha, fun x hx => by simp only; rw [hk]; exact hx, rfl, rfl⟩

theorem grows_handleReorgedTxs (s : Tower) (node : Node) (height : Nat) (h : TInv s) :
    Grows s (handleReorgedTxs s node height).1 := by
  unfold handleReorgedTxs
  have g0 := grows_setMem_reorged s []
  have g1 := grows_foldl (reorgStep node height) (fun acc a ha => grows_reorgStep node height acc a ha)
    s.mem.reorged (({ s with mem := { s.mem with reorged := [] } } : Tower), ([] : List Uuid), ([] : List Rpc)) (g0.inv h)
  exact g0.trans g1

theorem grows_rebroadcastStep (node : Node) (height : Nat) (acc : Tower × List Uuid × List Rpc) (k : Uuid)
    (h : TInv acc.1) (hk : (acc.1.db.trackers k).isSome = true) :
    Grows acc.1 (rebroadcastStep node height acc k).1 := by
  obtain ⟨s, rej, log⟩ := acc
  unfold rebroadcastStep
  simp only at hk ⊢
  obtain ⟨t, ht⟩ := Option.isSome_iff_exists.mp hk
  simp only [ht]
  have hc1 := carrierSend_spec s.mem node t.penalty h.memo
  simp only at hc1
  have g1 : Grows s { s with mem := (carrierSend s.mem node t.penalty).1 } :=
    grows_mem s _ hc1.2.2.1 hc1.2.2.2 (fun _ => hc1.1)
  split
  · exact g1
  · obtain ⟨d', hd'⟩ := updateTrackerStatus_some s.db k (.inMempoolSince height) t ht rfl
    simp only [hd']
    obtain ⟨hi, hu, ha, hkk⟩ := h.db.updateTrackerStatus hd'
    refine g1.trans ⟨fun hh => ⟨hh.alive, hi, by intro u; simp only; rw [hu]; exact hh.dom u, hh.memo, hh.txi⟩,
      ha, fun x hx => by simp only; rw [hkk]; exact hx, rfl, rfl⟩

theorem grows_rebroadcast_loop (node : Node) (height : Nat) :
    ∀ (ks : List Uuid) (acc : Tower × List Uuid × List Rpc), TInv acc.1 →
    (∀ k ∈ ks, (acc.1.db.trackers k).isSome = true) →
    Grows acc.1 (ks.foldl (rebroadcastStep node height) acc).1 := by
  intro ks
  induction ks with
  | nil => intro acc _ _; exact Grows.refl _
  | cons k ks ih =>
    intro acc h hk
    have g1 := grows_rebroadcastStep node height acc k h (hk k (by simp))
    exact g1.trans (ih _ (g1.inv h) (fun x hx => g1.trk x (hk x (by simp [hx]))))

theorem grows_rebroadcastStaleTxs (s : Tower) (node : Node) (height : Nat) (h : TInv s)
    (hh : Gen.CONFIRMATIONS_BEFORE_RETRY ≤ height) :
    Grows s (rebroadcastStaleTxs s node height).1 := by
  unfold rebroadcastStaleTxs
  have : ¬ height < Gen.CONFIRMATIONS_BEFORE_RETRY := Nat.not_lt.mpr hh
  simp only [this, ↓reduceIte]
  apply grows_rebroadcast_loop node height _ (s, [], []) h
  intro k hk
  simp only [List.mem_filter] at hk
  have := hk.2
  unfold isStale at this
  cases ht : s.db.trackers k with
  | none => simp [ht] at this
  | some t => rfl

end Teos

namespace Teos
open TxIndex

/-! ### the responder's block handlers -/

theorem tinv_respPrepare (s : Tower) (b height : Nat) (txs : List TxId) (h : TInv s)
    (hb : b ∉ s.mem.txIndex.blocks) : TInv (respPrepare s b height txs) := by
  unfold respPrepare
  refine ⟨h.alive, h.db, h.dom, h.memo, ?_⟩
  simp only
  apply h.txi.update b _ hb
  intro p hp
  simp only [List.mem_map] at hp
  obtain ⟨t, _, rfl⟩ := hp
  rfl

theorem tinv_respConnect (s : Tower) (node : Node) (b height : Nat) (txs : List TxId) (h : TInv s)
    (hb : b ∉ s.mem.txIndex.blocks) (hh : Gen.CONFIRMATIONS_BEFORE_RETRY ≤ height) :
    TInv (respConnect s node b height txs).1 := by
  unfold respConnect
  simp only
  have h1 := tinv_respPrepare s b height txs h hb
  have g2 := grows_checkConfirmations (respPrepare s b height txs) txs height h1
  have h2 := g2.inv h1
  have hex := checkConfirmations_completed_exist (respPrepare s b height txs) txs height h1
  -- the completed trackers' appointments exist
  have happ : ∀ k ∈ (checkConfirmations (respPrepare s b height txs) txs height).2,
      ((checkConfirmations (respPrepare s b height txs) txs height).1.db.appts k).isSome = true := by
    intro k hk
    rw [g2.appts]
    obtain ⟨t, ht⟩ := Option.isSome_iff_exists.mp (hex k hk)
    exact (h1.db.tracker_fk k t ht).1
  generalize hcc : checkConfirmations (respPrepare s b height txs) txs height = cc at *
  obtain ⟨s2, completed⟩ := cc
  simp only at h2 happ ⊢
  -- phase 3
  have h3 : TInv (if completed.isEmpty = true then s2 else deleteAppointments s2 completed true) := by
    split
    · exact h2
    · exact (tinv_delete_refund s2 completed h2 happ).1
  generalize hs3 : (if completed.isEmpty = true then s2 else deleteAppointments s2 completed true) = s3 at *
  -- phase 4
  have h4 : TInv (if s3.mem.reorged.isEmpty = true then (s3, ([] : List Uuid), ([] : List Rpc)) else handleReorgedTxs s3 node height).1 := by
    split
    · exact h3
    · exact (grows_handleReorgedTxs s3 node height h3).inv h3
  generalize hs4 : (if s3.mem.reorged.isEmpty = true then (s3, ([] : List Uuid), ([] : List Rpc)) else handleReorgedTxs s3 node height) = r4 at *
  obtain ⟨s4, rej1, log1⟩ := r4
  simp only at h4 ⊢
  -- phase 5
  have h5 := (grows_rebroadcastStaleTxs s4 node height h4 hh).inv h4
  generalize hs5 : rebroadcastStaleTxs s4 node height = r5 at *
  obtain ⟨s5, rej2, log2⟩ := r5
  simp only at h5 ⊢
  -- phase 6
  have h6 : TInv (if (rej1 ++ rej2).isEmpty = true then s5 else deleteAppointments s5 (rej1 ++ rej2) false) := by
    split
    · exact h5
    · exact (tinv_delete_norefund s5 _ h5).1
  exact ⟨h6.alive, h6.db, h6.dom, by intro tx r hr; simp at hr, h6.txi⟩

theorem tinv_respDisconnect (s : Tower) (b height : Nat) (h : TInv s)
    (hv : s.mem.txIndex.txIn b = none ∨ s.mem.txIndex.blocks.getLast? = some b) :
    TInv (respDisconnect s b height) := by
  unfold respDisconnect
  exact ⟨h.alive, h.db, h.dom, h.memo, h.txi.removeDisconnected b hv⟩

end Teos

namespace Teos
open TxIndex

/-! ### the watcher and the gatekeeper -/

theorem tinv_storeAppointment (s : Tower) (k : Uuid) (a : Appt) (h : TInv s) (hu : a.user = k.2)
    (hk : (s.db.users k.2).isSome = true) :
    TInv (storeAppointment s k a) ∧ (storeAppointment s k a).mem = s.mem := by
  unfold storeAppointment
  cases ha : s.db.appts k with
  | some old =>
    simp only
    have : ∃ d', s.db.updateAppt k a = some d' := by unfold Db.updateAppt; simp [ha]
    obtain ⟨d', hd'⟩ := this
    simp only [hd']
    obtain ⟨hi, hus, _⟩ := h.db.updateAppt hd'
    exact ⟨⟨h.alive, hi, by intro u; simp only; rw [hus]; exact h.dom u, h.memo, h.txi⟩, trivial⟩
  | none =>
    simp only
    have : ∃ d', s.db.storeAppt k a = some d' := by
      unfold Db.storeAppt
      obtain ⟨ui, hui⟩ := Option.isSome_iff_exists.mp hk
      simp [ha, hu, hui]
    obtain ⟨d', hd'⟩ := this
    simp only [hd']
    obtain ⟨hi, hus, _⟩ := h.db.storeAppt hu hd'
    exact ⟨⟨h.alive, hi, by intro u; simp only; rw [hus]; exact h.dom u, h.memo, h.txi⟩, trivial⟩

theorem tinv_storeTriggered (s : Tower) (node : Node) (k : Uuid) (a : Appt) (d : TxId) (h : TInv s)
    (hu : a.user = k.2) (hk : (s.db.users k.2).isSome = true) :
    TInv (storeTriggeredAppointment s node k a d).1 := by
  unfold storeTriggeredAppointment
  cases hdc : a.blob.decrypt d with
  | none => exact (tinv_delete_norefund s [k] h).1
  | some p =>
    simp only
    have h1 := (tinv_storeAppointment s k a h hu hk).1
    have g2 := grows_handleBreach (storeAppointment s k a) node k d p a.user h1
    have h2 := g2.inv h1
    split
    · exact (tinv_delete_norefund _ [k] h2).1
    · exact h2

theorem tinv_addUpdateUser (cfg : Cfg) (s : Tower) (u : User) (h : TInv s) :
    TInv (addUpdateUser cfg s u).1 := by
  unfold addUpdateUser
  cases hu : s.mem.users u with
  | some ui =>
    simp only
    split
    · exact h
    · refine ⟨h.alive, h.db.updateUser u _, ?_, h.memo, h.txi⟩
      intro x
      simp only
      rw [updateUser_dom]
      by_cases e : x = u
      · subst e; simp only [↓reduceIte, Option.isSome_some]; rw [← h.dom, hu]; rfl
      · simp only [e, ↓reduceIte]; exact h.dom x
  | none =>
    simp only
    have hdn : s.db.users u = none := by
      have := h.dom u
      rw [hu] at this
      cases hd : s.db.users u with
      | none => rfl
      | some x => rw [hd] at this; cases this
    have : ∃ d', s.db.storeUser u { slots := cfg.slots, start := s.mem.gkHeight, expiry := s.mem.gkHeight + cfg.duration } = some d' := by
      unfold Db.storeUser; simp [hdn]
    obtain ⟨d', hd'⟩ := this
    simp only [hd']
    refine ⟨h.alive, h.db.storeUser hd', ?_, h.memo, h.txi⟩
    intro x
    unfold Db.storeUser at hd'
    simp only [hdn, Option.some.injEq] at hd'
    subst hd'
    simp only
    by_cases e : x = u
    · simp [e]
    · simp only [e, ↓reduceIte]; exact h.dom x

theorem tinv_addUpdateAppointment (s : Tower) (u : User) (k : Uuid) (len : Nat) (h : TInv s)
    (hu : (s.mem.users u).isSome = true) :
    TInv (addUpdateAppointment s u k len).1 ∧
    (addUpdateAppointment s u k len).1.mem.txIndex = s.mem.txIndex ∧
    ((addUpdateAppointment s u k len).1.db.users u).isSome = true ∧
    (addUpdateAppointment s u k len).1.db.trackers = s.db.trackers := by
  unfold addUpdateAppointment
  obtain ⟨ui, hui⟩ := Option.isSome_iff_exists.mp hu
  have hdu : (s.db.users u).isSome = true := by rw [← h.dom, hui]; rfl
  simp only [hui]
  split
  · refine ⟨⟨h.alive, h.db.updateUser u _, ?_, h.memo, h.txi⟩, rfl, ?_, ?_⟩
    · intro x
      simp only
      rw [updateUser_dom]
      by_cases e : x = u
      · subst e; simp only [↓reduceIte, Option.isSome_some]; exact hdu.symm
      · simp only [e, ↓reduceIte]; exact h.dom x
    · simp only; rw [updateUser_dom]; exact hdu
    · simp only
      unfold Db.updateUser
      split <;> rfl
  · exact ⟨h, rfl, hdu, rfl⟩

theorem authCheck_ok_mem (s : Tower) (sg : Option User) (u : User) (ui : UserInfo)
    (h : authCheck s sg = .ok (u, ui)) : s.mem.users u = some ui := by
  unfold authCheck at h
  cases sg with
  | none => simp at h
  | some x =>
    simp only at h
    cases hx : s.mem.users x with
    | none => simp [hx] at h
    | some i =>
      simp only [hx] at h
      split at h
      · cases h
      · simp only [Except.ok.injEq, Prod.mk.injEq] at h
        obtain ⟨rfl, rfl⟩ := h
        exact hx

theorem tinv_addAppointment (s : Tower) (node : Node) (sg : Option User) (l : Loc) (b : Blob) (t u : Nat)
    (h : TInv s) : TInv (addAppointment s node sg l b t u).1 := by
  unfold addAppointment
  cases ha : authCheck s sg with
  | error e => exact h
  | ok p =>
    obtain ⟨usr, ui⟩ := p
    simp only
    have hm := authCheck_ok_mem s sg usr ui ha
    split
    · exact h
    · obtain ⟨h1, _, hdu, _⟩ := tinv_addUpdateAppointment s usr (l, usr) b.len h (by simp [hm])
      generalize haa : addUpdateAppointment s usr (l, usr) b.len = r at *
      obtain ⟨s1, av⟩ := r
      simp only at h1 hdu ⊢
      cases av with
      | none => exact h1
      | some avail =>
        simp only
        split
        · exact tinv_storeTriggered s1 node (l, usr) _ _ h1 rfl hdu
        · exact (tinv_storeAppointment s1 (l, usr) _ h1 rfl hdu).1

theorem tinv_register (cfg : Cfg) (s : Tower) (u : User) (h : TInv s) : TInv (register cfg s u).1 := by
  unfold register
  have := tinv_addUpdateUser cfg s u h
  split <;> (rename_i heq; rw [heq] at this; exact this)

end Teos

namespace Teos
open TxIndex

theorem grows_breachStep (node : Node) (d : TxId) (acc : Tower × List Uuid × List Rpc) (k : Uuid)
    (h : TInv acc.1) (hk : (acc.1.db.appts k).isSome = true) :
    Grows acc.1 (breachStep node d acc k).1 := by
  obtain ⟨s, inv, log⟩ := acc
  unfold breachStep
  simp only at hk ⊢
  obtain ⟨a, ha⟩ := Option.isSome_iff_exists.mp hk
  simp only [ha]
  cases hdc : a.blob.decrypt d with
  | none => exact Grows.refl _
  | some p =>
    simp only
    have g := grows_handleBreach s node k d p a.user h
    split <;> exact g

theorem grows_breach_loop (node : Node) (d : TxId) :
    ∀ (ks : List Uuid) (acc : Tower × List Uuid × List Rpc), TInv acc.1 →
    (∀ k ∈ ks, (acc.1.db.appts k).isSome = true) →
    Grows acc.1 (ks.foldl (breachStep node d) acc).1 := by
  intro ks
  induction ks with
  | nil => intro acc _ _; exact Grows.refl _
  | cons k ks ih =>
    intro acc h hk
    have g1 := grows_breachStep node d acc k h (hk k (by simp))
    exact g1.trans (ih _ (g1.inv h) (fun x hx => by rw [g1.appts]; exact hk x (by simp [hx])))

theorem grows_disputeStep (node : Node) (acc : Tower × List Uuid × List Rpc) (d : TxId) (h : TInv acc.1) :
    Grows acc.1 (disputeStep node acc d).1 := by
  unfold disputeStep
  apply grows_breach_loop node d _ acc h
  intro k hk
  unfold Db.uuidsWithLoc Db.liveAppts at hk
  simp only [List.mem_filter] at hk
  exact hk.1.2

theorem grows_handleBreaches (s : Tower) (node : Node) (disputes : List TxId) (h : TInv s) :
    Grows s (handleBreaches s node disputes).1 := by
  unfold handleBreaches
  exact grows_foldl (disputeStep node) (fun acc a ha => grows_disputeStep node acc a ha) disputes
    (s, ([] : List Uuid), ([] : List Rpc)) h

theorem tinv_watcherConnect (s : Tower) (node : Node) (b height : Nat) (txs : List TxId) (h : TInv s) :
    TInv (watcherConnect s node b height txs).1 ∧
    (watcherConnect s node b height txs).1.mem.txIndex = s.mem.txIndex := by
  unfold watcherConnect
  simp only
  generalize (txs.filter _) = disputes
  have h1 : TInv { s with mem := { s.mem with cache := s.mem.cache.update b (txs.map fun t => (locOf t, t)) } } :=
    ⟨h.alive, h.db, h.dom, h.memo, h.txi⟩
  have g2 := grows_handleBreaches _ node disputes h1
  have h2 := g2.inv h1
  have ht2 := g2.txi
  generalize handleBreaches _ node disputes = r at *
  obtain ⟨s2, invalid, log⟩ := r
  simp only at h2 ht2 ⊢
  have h3 : TInv (if invalid.isEmpty = true then s2 else deleteAppointments s2 invalid false) ∧
      (if invalid.isEmpty = true then s2 else deleteAppointments s2 invalid false).mem.txIndex = s2.mem.txIndex := by
    split
    · exact ⟨h2, rfl⟩
    · have := tinv_delete_norefund s2 invalid h2
      exact ⟨this.1, by rw [this.2]⟩
  exact ⟨⟨h3.1.alive, h3.1.db, h3.1.dom, h3.1.memo, h3.1.txi⟩, by rw [h3.2, ht2]⟩

theorem tinv_gkConnect (cfg : Cfg) (s : Tower) (height : Nat) (h : TInv s) :
    TInv (gkConnect cfg s height) ∧ (gkConnect cfg s height).mem.txIndex = s.mem.txIndex := by
  unfold gkConnect
  simp only
  split
  · exact ⟨⟨h.alive, h.db, h.dom, h.memo, h.txi⟩, rfl⟩
  · refine ⟨⟨h.alive, h.db.removeUsers _, ?_, h.memo, h.txi⟩, rfl⟩
    intro u
    simp only [Db.removeUsers]
    split
    · rfl
    · exact h.dom u

/-- what a history may contain: block hashes not seen twice by the index, heights at which the
retry window is defined, and disconnections of the tip -/
def OpValid (s : Tower) : Op → Prop
  | .connect b h _ => b ∉ s.mem.txIndex.blocks ∧ Gen.CONFIRMATIONS_BEFORE_RETRY ≤ h
  | .disconnect b _ => s.mem.txIndex.txIn b = none ∨ s.mem.txIndex.blocks.getLast? = some b
  | _ => True

theorem tinv_connectBlock (cfg : Cfg) (s : Tower) (node : Node) (b height : Nat) (txs : List TxId) (h : TInv s)
    (hb : b ∉ s.mem.txIndex.blocks) (hh : Gen.CONFIRMATIONS_BEFORE_RETRY ≤ height) :
    TInv (connectBlock cfg s node b height txs).1 := by
  unfold connectBlock
  simp only
  obtain ⟨h1, t1⟩ := tinv_gkConnect cfg s height h
  obtain ⟨h2, t2⟩ := tinv_watcherConnect (gkConnect cfg s height) node b height txs h1
  exact tinv_respConnect _ node b height txs h2 (by rw [t2, t1]; exact hb) hh

theorem tinv_disconnectBlock (s : Tower) (b height : Nat) (h : TInv s)
    (hv : s.mem.txIndex.txIn b = none ∨ s.mem.txIndex.blocks.getLast? = some b) :
    TInv (disconnectBlock s b height) := by
  unfold disconnectBlock
  simp only
  apply tinv_respDisconnect
  · unfold watcherDisconnect
    exact ⟨h.alive, h.db, h.dom, h.memo, h.txi⟩
  · exact hv

/-- **one step of any history keeps the invariant** -/
theorem tinv_step (cfg : Cfg) (s : Tower) (node : Node) (op : Op) (h : TInv s) (hv : OpValid s op) :
    TInv (step cfg s node op).1 := by
  have ha : s.aborted.isSome = false := by rw [h.alive]; rfl
  cases op with
  | register u => simp only [step, ha, Bool.false_eq_true, ↓reduceIte]; exact tinv_register cfg s u h
  | add sg l b t u => simp only [step, ha, Bool.false_eq_true, ↓reduceIte]; exact tinv_addAppointment s node sg l b t u h
  | get sg l => simp only [step, ha, Bool.false_eq_true, ↓reduceIte]; exact h
  | sub sg => simp only [step, ha, Bool.false_eq_true, ↓reduceIte]; exact h
  | connect b hgt txs =>
    simp only [step, ha, Bool.false_eq_true, ↓reduceIte]
    exact tinv_connectBlock cfg s node b hgt txs h hv.1 hv.2
  | disconnect b hgt =>
    simp only [step, ha, Bool.false_eq_true, ↓reduceIte]
    exact tinv_disconnectBlock s b hgt h hv

end Teos

namespace Teos
open TxIndex

/-! ### bootstrap and whole histories -/

theorem update_blocks_subset {K : Type} [DecidableEq K] (t : TxIndex K Nat) (b : Nat) (d : List (K × Nat)) :
    ∀ x ∈ (t.update b d).blocks, x ∈ t.blocks ∨ x = b := by
  intro x hx
  unfold TxIndex.update at hx
  simp only at hx
  split at hx
  · unfold TxIndex.removeOldest at hx
    simp only at hx
    cases hb : t.blocks ++ [b] with
    | nil => simp [hb] at hx
    | cons hd rest =>
      simp only [hb] at hx
      have : x ∈ t.blocks ++ [b] := by rw [hb]; exact List.mem_cons_of_mem _ hx
      simpa using this
  · simpa using hx

theorem tiinv_foldl_update {K : Type} [DecidableEq K] :
    ∀ (bl : List (Nat × List (K × Nat))) (t : TxIndex K Nat), TIInv t →
    (bl.map (·.1)).Nodup → (∀ b ∈ bl, b.1 ∉ t.blocks) → (∀ b ∈ bl, ∀ p ∈ b.2, p.2 = b.1) →
    TIInv (bl.foldl (fun t (b : Nat × List (K × Nat)) => t.update b.1 b.2) t) := by
  intro bl
  induction bl with
  | nil => intro t h _ _ _; exact h
  | cons b bs ih =>
    intro t h hnd hfresh hval
    simp only [List.foldl_cons]
    simp only [List.map_cons, List.nodup_cons] at hnd
    apply ih
    · exact h.update b.1 b.2 (hfresh b (by simp)) (hval b (by simp))
    · exact hnd.2
    · intro x hx hmem
      rcases update_blocks_subset t b.1 b.2 _ hmem with hm | hm
      · exact hfresh x (by simp [hx]) hm
      · exact hnd.1 (by rw [← hm]; exact List.mem_map_of_mem (f := (·.1)) hx)
    · intro x hx; exact hval x (by simp [hx])

theorem tiinv_new {K : Type} [DecidableEq K] (bl : List (Nat × List (K × Nat))) (height : Nat)
    (hnd : (bl.map (·.1)).Nodup) (hval : ∀ b ∈ bl, ∀ p ∈ b.2, p.2 = b.1) :
    TIInv (TxIndex.new bl height) := by
  unfold TxIndex.new
  have := tiinv_foldl_update bl (TxIndex.empty bl.length height) (TIInv.empty _ _) hnd
    (by intro b _; simp [TxIndex.empty]) hval
  intro k v hk
  exact this k v hk

/-- the state `main.rs` builds from a consistent database and a chain of distinct blocks -/
theorem tinv_boot (db : Db) (height : Nat) (blocks : List (Nat × List TxId)) (hdb : DbInv db)
    (hnd : (blocks.map (·.1)).Nodup) : TInv (boot db height blocks) := by
  unfold boot
  refine ⟨rfl, hdb, fun _ => rfl, by intro tx r hr; simp at hr, ?_⟩
  simp only
  apply tiinv_new
  · simpa [List.map_map, Function.comp_def] using hnd
  · intro b hb p hp
    simp only [List.mem_map] at hb
    obtain ⟨x, _, rfl⟩ := hb
    simp only [List.mem_map] at hp
    obtain ⟨t, _, rfl⟩ := hp
    rfl

/-- a history: each operation with the node behaviour it meets -/
def runHistory (cfg : Cfg) : Tower → List (Node × Op) → Tower
  | s, [] => s
  | s, (node, op) :: rest => runHistory cfg (step cfg s node op).1 rest

def HistoryValid (cfg : Cfg) : Tower → List (Node × Op) → Prop
  | _, [] => True
  | s, (node, op) :: rest => OpValid s op ∧ HistoryValid cfg (step cfg s node op).1 rest

theorem tinv_history (cfg : Cfg) : ∀ (hist : List (Node × Op)) (s : Tower), TInv s →
    HistoryValid cfg s hist → TInv (runHistory cfg s hist) := by
  intro hist
  induction hist with
  | nil => intro s h _; exact h
  | cons x rest ih =>
    intro s h hv
    obtain ⟨node, op⟩ := x
    exact ih _ (tinv_step cfg s node op h hv.1) hv.2

end Teos
