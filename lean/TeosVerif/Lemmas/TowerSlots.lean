import TeosVerif.Lemmas.TowerInv
import TeosVerif.Lemmas.Tower
import TeosVerif.Lemmas.TowerUsers
import TeosVerif.Lemmas.TowerJust
import TeosVerif.Lemmas.TowerBreach

/-! Slot accounting through whole histories (C07): `held = available + occupied` never grows by more than a
registration grants. -/

namespace Teos
open TxIndex

/-! ### sums over key lists -/

theorem sum_map_le {α : Type} (f g : α → Nat) : ∀ (l : List α), (∀ x, x ∈ l → f x ≤ g x) →
    (l.map f).sum ≤ (l.map g).sum
  | [], _ => Nat.le_refl _
  | x :: r, h => by
    simp only [List.map_cons, List.sum_cons]
    have h1 := h x (by simp)
    have h2 := sum_map_le f g r (fun y hy => h y (by simp [hy]))
    omega

theorem sum_map_congr {α : Type} (f g : α → Nat) (l : List α) (h : ∀ x, x ∈ l → f x = g x) :
    (l.map f).sum = (l.map g).sum :=
  Nat.le_antisymm (sum_map_le f g l (fun x hx => Nat.le_of_eq (h x hx)))
    (sum_map_le g f l (fun x hx => Nat.le_of_eq (h x hx).symm))

theorem sum_map_zero {α : Type} (f : α → Nat) (l : List α) (h : ∀ x, x ∈ l → f x = 0) : (l.map f).sum = 0 := by
  rw [sum_map_congr f (fun _ => 0) l h]
  clear h
  induction l with
  | nil => rfl
  | cons x r ih => simpa using ih

/-- two functions that differ at one key of a duplicate-free list -/
theorem sum_map_update {α : Type} (f g : α → Nat) (k : α) : ∀ (l : List α), l.Nodup → k ∈ l →
    (∀ x, x ∈ l → x ≠ k → g x = f x) → (l.map g).sum + f k = (l.map f).sum + g k
  | [], _, hk, _ => by cases hk
  | x :: r, hnd, hk, h => by
    simp only [List.map_cons, List.sum_cons]
    have hnd' := List.nodup_cons.1 hnd
    by_cases e : x = k
    · subst e
      have : (r.map g).sum = (r.map f).sum :=
        sum_map_congr g f r (fun y hy => h y (by simp [hy]) (fun e => hnd'.1 (e ▸ hy)))
      omega
    · have hk' : k ∈ r := by
        rcases List.mem_cons.1 hk with e' | e'
        · exact absurd e'.symm e
        · exact e'
      have ih := sum_map_update f g k r hnd'.2 hk' (fun y hy hne => h y (by simp [hy]) hne)
      have := h x (by simp) e
      omega

/-- the same when the key is not in the list at all -/
theorem sum_map_same {α : Type} (f g : α → Nat) (k : α) (l : List α) (hk : k ∉ l)
    (h : ∀ x, x ∈ l → x ≠ k → g x = f x) : (l.map g).sum = (l.map f).sum :=
  sum_map_congr g f l (fun x hx => h x hx (fun e => hk (e ▸ hx)))

/-! ### what a user holds -/

/-- the slots appointment `k` occupies on `u`'s account -/
def cost (d : Db) (u : User) (k : Uuid) : Nat :=
  match d.appts k with
  | some a => if k.2 = u then slotsOf a.blob.len else 0
  | none => 0

/-- slots occupied by the appointments (and trackers: a tracker keeps its appointment row) of `u` -/
def occ (d : Db) (u : User) : Nat := (d.apptKeys.map (cost d u)).sum

def avail (s : Tower) (u : User) : Nat :=
  match s.mem.users u with
  | some ui => ui.slots
  | none => 0

/-- available + occupied -/
def held (s : Tower) (u : User) : Nat := avail s u + occ s.db u

theorem sum_filter_nonzero {α : Type} (f : α → Nat) : ∀ (l : List α),
    ((l.filter (fun x => f x != 0)).map f).sum = (l.map f).sum
  | [] => rfl
  | x :: r => by
    simp only [List.filter_cons]
    by_cases e : f x = 0
    · simp only [e, bne_self_eq_false, Bool.false_eq_true, ↓reduceIte, List.map_cons, List.sum_cons, Nat.zero_add]
      exact sum_filter_nonzero f r
    · have : (f x != 0) = true := by simpa using e
      simp only [this, ↓reduceIte, List.map_cons, List.sum_cons]
      rw [sum_filter_nonzero f r]

/-- the sum does not depend on the duplicate-free key list, as long as it covers the support -/
theorem sum_cover {α : Type} [DecidableEq α] (f : α → Nat) (l1 l2 : List α) (n1 : l1.Nodup) (n2 : l2.Nodup)
    (c1 : ∀ x, f x ≠ 0 → x ∈ l1) (c2 : ∀ x, f x ≠ 0 → x ∈ l2) : (l1.map f).sum = (l2.map f).sum := by
  rw [← sum_filter_nonzero f l1, ← sum_filter_nonzero f l2]
  have hp : (l1.filter (fun x => f x != 0)).Perm (l2.filter (fun x => f x != 0)) := by
    rw [List.perm_ext_iff_of_nodup (n1.filter _) (n2.filter _)]
    intro x
    simp only [List.mem_filter, bne_iff_ne, ne_eq]
    constructor
    · rintro ⟨_, h⟩; exact ⟨c2 x h, h⟩
    · rintro ⟨_, h⟩; exact ⟨c1 x h, h⟩
  exact (hp.map f).sum_nat

theorem cost_support (d : Db) (hd : DbInv d) (u : User) (k : Uuid) (h : cost d u k ≠ 0) : k ∈ d.apptKeys := by
  apply hd.appt_keys
  unfold cost at h
  cases ha : d.appts k with
  | none => rw [ha] at h; exact absurd rfl h
  | some a => rfl

/-- `occ` over any duplicate-free cover -/
theorem occ_eq_cover (d : Db) (hd : DbInv d) (u : User) (l : List Uuid) (nd : l.Nodup)
    (c : ∀ k, (d.appts k).isSome = true → k ∈ l) : occ d u = (l.map (cost d u)).sum := by
  unfold occ
  apply sum_cover _ _ _ hd.appt_nodup nd (cost_support d hd u)
  intro k h
  apply c
  unfold cost at h
  cases ha : d.appts k with
  | none => rw [ha] at h; exact absurd rfl h
  | some a => rfl

theorem cost_le_of_sub (d d' : Db) (u : User) (k : Uuid) (h : ∀ a, d'.appts k = some a → d.appts k = some a) :
    cost d' u k ≤ cost d u k := by
  unfold cost
  cases h' : d'.appts k with
  | none => exact Nat.zero_le _
  | some a => rw [h a h']; exact Nat.le_refl _

/-- rows may have gone, none was added or changed -/
theorem occ_le_of_sub (d d' : Db) (hd : DbInv d) (hd' : DbInv d') (u : User)
    (h : ∀ k a, d'.appts k = some a → d.appts k = some a) : occ d' u ≤ occ d u := by
  rw [occ_eq_cover d' hd' u d.apptKeys hd.appt_nodup
    (fun k hk => by
      obtain ⟨a, ha⟩ := Option.isSome_iff_exists.mp hk
      exact hd.appt_keys k (by rw [h k a ha]; rfl))]
  exact sum_map_le _ _ _ (fun k _ => cost_le_of_sub d d' u k (h k))

/-- nothing about slots changed; rows may have gone -/
structure Fr (s s' : Tower) : Prop where
  users : s'.mem.users = s.mem.users
  appts : ∀ k a, s'.db.appts k = some a → s.db.appts k = some a

theorem Fr.refl (s : Tower) : Fr s s := ⟨rfl, fun _ _ h => h⟩

theorem Fr.trans {a b c : Tower} (h1 : Fr a b) (h2 : Fr b c) : Fr a c :=
  ⟨h2.users.trans h1.users, fun k x h => h1.appts k x (h2.appts k x h)⟩

theorem Fr.held_le {s s' : Tower} (h : Fr s s') (hi : TInv s) (hi' : TInv s') (u : User) : held s' u ≤ held s u := by
  unfold held avail
  rw [h.users]
  have := occ_le_of_sub s.db s'.db hi.db hi'.db u h.appts
  omega

theorem Fr.of_shrink {s s' : Tower} (h : Shrink s s') (hu : s'.mem.users = s.mem.users) : Fr s s' :=
  ⟨hu, h.appts⟩

/-- `s'` is consistent and nobody holds more in it than in `s` -/
def HL (s s' : Tower) : Prop := TInv s' ∧ ∀ u, held s' u ≤ held s u

theorem HL.refl {s : Tower} (h : TInv s) : HL s s := ⟨h, fun _ => Nat.le_refl _⟩

theorem HL.trans {a b c : Tower} (h1 : HL a b) (h2 : HL b c) : HL a c :=
  ⟨h2.1, fun u => Nat.le_trans (h2.2 u) (h1.2 u)⟩

theorem hl_of_fr {s s' : Tower} (h : Fr s s') (hi : TInv s) (hi' : TInv s') : HL s s' :=
  ⟨hi', h.held_le hi hi'⟩

theorem hl_of_grows {s s' : Tower} (g : Grows s s') (h : TInv s) : HL s s' :=
  hl_of_fr ⟨g.users, fun k a ha => by rw [← g.appts]; exact ha⟩ h (g.inv h)

theorem hl_delete_norefund (s : Tower) (ks : List Uuid) (h : TInv s) : HL s (deleteAppointments s ks false) := by
  refine hl_of_fr ⟨(deleteAppointments_norefund_users s ks).1, ?_⟩ h (tinv_delete_norefund s ks h).1
  intro k a ha
  unfold deleteAppointments at ha
  simp only [Bool.false_eq_true, ↓reduceIte] at ha
  rw [Db.removeAppts_appts] at ha
  split at ha
  · cases ha
  · exact ha

theorem sum_map_add {α : Type} (f g : α → Nat) : ∀ (l : List α),
    (l.map (fun x => f x + g x)).sum = (l.map f).sum + (l.map g).sum
  | [] => rfl
  | x :: r => by
    simp only [List.map_cons, List.sum_cons]
    rw [sum_map_add f g r]
    omega

/-- deleting the rows `ks` (each once) frees exactly what they occupied -/
theorem occ_drop (d d' : Db) (hd : DbInv d) (hd' : DbInv d') (u : User) (ks : List Uuid) (nd : ks.Nodup)
    (h : ∀ x, d'.appts x = if x ∈ ks then none else d.appts x) :
    occ d' u + (ks.map (cost d u)).sum = occ d u := by
  have hc' : occ d' u = (d.apptKeys.map (cost d' u)).sum :=
    occ_eq_cover d' hd' u d.apptKeys hd.appt_nodup (fun k hk => by
      rw [h k] at hk
      split at hk
      · cases hk
      · exact hd.appt_keys k hk)
  rw [hc']
  have hsplit : ∀ x, cost d u x = (if x ∈ ks then cost d u x else 0) + cost d' u x := by
    intro x
    unfold cost
    rw [h x]
    by_cases e : x ∈ ks
    · simp only [e, ↓reduceIte, Nat.add_zero]
    · simp only [e, ↓reduceIte, Nat.zero_add]
  have h1 : occ d u = (d.apptKeys.map (fun x => (if x ∈ ks then cost d u x else 0) + cost d' u x)).sum := by
    unfold occ
    exact sum_map_congr _ _ _ (fun x _ => hsplit x)
  rw [h1, sum_map_add]
  have h2 : (d.apptKeys.map (fun x => if x ∈ ks then cost d u x else 0)).sum = (ks.map (cost d u)).sum := by
    rw [sum_cover (fun x => if x ∈ ks then cost d u x else 0) d.apptKeys ks hd.appt_nodup nd
      (fun x hx => by
        by_cases e : x ∈ ks
        · simp only [e, ↓reduceIte] at hx; exact cost_support d hd u x hx
        · simp only [e, ↓reduceIte] at hx; exact absurd rfl hx)
      (fun x hx => by
        by_cases e : x ∈ ks
        · exact e
        · simp only [e, ↓reduceIte] at hx; exact absurd rfl hx)]
    exact sum_map_congr _ _ _ (fun x hx => by simp only [hx, ↓reduceIte])
  omega

/-- replacing (or inserting, or removing) the row of one key -/
theorem occ_set (d d' : Db) (hd : DbInv d) (hd' : DbInv d') (u : User) (k : Uuid)
    (h : ∀ x, x ≠ k → d'.appts x = d.appts x) :
    occ d' u + cost d u k = occ d u + cost d' u k := by
  have nd := nodup_addKey k d.apptKeys hd.appt_nodup
  have c1 : occ d u = ((Db.addKey k d.apptKeys).map (cost d u)).sum :=
    occ_eq_cover d hd u _ nd (fun x hx => by rw [mem_addKey]; exact Or.inr (hd.appt_keys x hx))
  have c2 : occ d' u = ((Db.addKey k d.apptKeys).map (cost d' u)).sum :=
    occ_eq_cover d' hd' u _ nd (fun x hx => by
      rw [mem_addKey]
      by_cases e : x = k
      · exact Or.inl e
      · rw [h x e] at hx; exact Or.inr (hd.appt_keys x hx))
  rw [c1, c2]
  exact sum_map_update (cost d u) (cost d' u) k _ nd (by rw [mem_addKey]; exact Or.inl rfl)
    (fun x _ hne => by unfold cost; rw [h x hne])

theorem removeApptsRefund_appts (d : Db) (ks : List Uuid) (bal : List (User × Nat)) (x : Uuid) :
    (d.removeApptsRefund ks bal).appts x = if x ∈ ks then none else d.appts x := by
  unfold Db.removeApptsRefund
  simp only
  rw [(foldl_setSlots_tables _ _).1]
  rfl

/-- the refund loop hands back exactly what the rows occupy -/
theorem refund_avail (s0 : Tower) (h0 : TInv s0) (u : User) : ∀ (ks : List Uuid) (acc : Tower × List User),
    (∀ k ∈ ks, (s0.db.appts k).isSome = true) → acc.1.db = s0.db →
    (∀ x, (acc.1.mem.users x).isSome = (s0.mem.users x).isSome) →
    avail (ks.foldl refundStep acc).1 u = avail acc.1 u + (ks.map (cost s0.db u)).sum := by
  intro ks
  induction ks with
  | nil => intro acc _ _ _; simp
  | cons k ks ih =>
    intro acc hk h1 h3
    simp only [List.foldl_cons, List.map_cons, List.sum_cons]
    obtain ⟨s, upd⟩ := acc
    simp only at h1 h3
    obtain ⟨a, ha⟩ := Option.isSome_iff_exists.mp (hk k (by simp))
    have hfk := h0.db.appt_fk k a ha
    have hu : (s.mem.users a.user).isSome = true := by
      rw [h3, h0.dom, hfk.1]; exact hfk.2
    obtain ⟨ui, hui⟩ := Option.isSome_iff_exists.mp hu
    have hstep : refundStep (s, upd) k =
        ({ s with mem := { s.mem with users := fun x => if x = a.user then some { ui with slots := ui.slots + slotsOf a.blob.len } else s.mem.users x } },
         Db.addKey a.user upd) := by
      unfold refundStep
      simp only [h1, ha, hui]
    rw [hstep]
    rw [ih _ (fun x hx => hk x (by simp [hx])) h1 (by
      intro x
      simp only
      by_cases e : x = a.user
      · subst e; simp only [↓reduceIte, Option.isSome_some]; rw [← h3, hui]; rfl
      · simp only [e, ↓reduceIte]; exact h3 x)]
    have hc : cost s0.db u k = if a.user = u then slotsOf a.blob.len else 0 := by
      unfold cost
      rw [ha, hfk.1]
    rw [hc]
    unfold avail
    simp only
    by_cases e : u = a.user
    · subst e
      simp only [↓reduceIte, hui]
      omega
    · have e' : ¬ a.user = u := fun x => e x.symm
      simp only [e, e', ↓reduceIte]
      omega

theorem hl_delete_refund (s : Tower) (ks : List Uuid) (h : TInv s)
    (hk : ∀ k ∈ ks, (s.db.appts k).isSome = true) (nd : ks.Nodup) : HL s (deleteAppointments s ks true) := by
  have hi' := (tinv_delete_refund s ks h hk).1
  refine ⟨hi', fun u => ?_⟩
  have hav := refund_avail s h u ks (s, []) hk rfl (fun _ => rfl)
  obtain ⟨r1, _, _, _, _⟩ := refund_loop s h ks (s, []) hk rfl h.alive (fun _ => rfl) rfl rfl
  have hocc : occ (deleteAppointments s ks true).db u + (ks.map (cost s.db u)).sum = occ s.db u := by
    apply occ_drop s.db _ h.db hi'.db u ks nd
    intro x
    unfold deleteAppointments
    simp only [↓reduceIte]
    rw [removeApptsRefund_appts, r1]
  have hav' : avail (deleteAppointments s ks true) u = avail (ks.foldl refundStep (s, [])).1 u := by
    unfold deleteAppointments avail
    simp only [↓reduceIte]
  unfold held
  rw [hav', hav]
  simp only
  omega

theorem confirmStep_done (txids : List TxId) (height : Nat) (acc : Tower × List Uuid) (k : Uuid) :
    (confirmStep txids height acc k).2 = acc.2 ∨ (confirmStep txids height acc k).2 = acc.2 ++ [k] := by
  obtain ⟨s, done⟩ := acc
  unfold confirmStep
  simp only
  split
  · exact Or.inl rfl
  · split
    · split <;> exact Or.inl rfl
    · split
      · exact Or.inl rfl
      · split
        · split
          · exact Or.inr rfl
          · exact Or.inl rfl
        all_goals exact Or.inl rfl

theorem confirm_loop_nodup (txids : List TxId) (height : Nat) : ∀ (xs : List Uuid) (acc : Tower × List Uuid),
    xs.Nodup → acc.2.Nodup → (∀ x, x ∈ xs → x ∉ acc.2) → (xs.foldl (confirmStep txids height) acc).2.Nodup := by
  intro xs
  induction xs with
  | nil => intro acc _ h _; exact h
  | cons k r ih =>
    intro acc hnd hacc hdis
    simp only [List.foldl_cons]
    have hnd' := List.nodup_cons.1 hnd
    rcases confirmStep_done txids height acc k with e | e
    · apply ih _ hnd'.2
      · rw [e]; exact hacc
      · intro x hx; rw [e]; exact hdis x (by simp [hx])
    · apply ih _ hnd'.2
      · rw [e]
        refine List.nodup_append.mpr ⟨hacc, by simp, ?_⟩
        intro x hx y hy
        simp only [List.mem_singleton] at hy
        subst hy
        intro e'; subst e'
        exact hdis x (by simp) hx
      · intro x hx
        rw [e]
        simp only [List.mem_append, List.mem_singleton, not_or]
        exact ⟨hdis x (by simp [hx]), fun e' => hnd'.1 (e' ▸ hx)⟩

theorem checkConfirmations_nodup (s : Tower) (txids : List TxId) (height : Nat) (h : TInv s) :
    (checkConfirmations s txids height).2.Nodup := by
  unfold checkConfirmations
  apply confirm_loop_nodup txids height _ (s, [])
  · unfold Db.liveTrackers
    exact h.db.appt_nodup.filter _
  · exact List.nodup_nil
  · intro x _ hx; cases hx

/-- the responder's block handler: completed trackers are refunded what they occupied, everything else
only loses rows -/
theorem hl_respConnect (s : Tower) (node : Node) (b height : Nat) (txs : List TxId) (h : TInv s)
    (hb : b ∉ s.mem.txIndex.blocks) (hh : Gen.CONFIRMATIONS_BEFORE_RETRY ≤ height) :
    HL s (respConnect s node b height txs).1 := by
  unfold respConnect
  simp only
  have h1 := tinv_respPrepare s b height txs h hb
  have l1 : HL s (respPrepare s b height txs) := hl_of_fr ⟨rfl, fun _ _ hx => hx⟩ h h1
  have g2 := grows_checkConfirmations (respPrepare s b height txs) txs height h1
  have l2 := l1.trans (hl_of_grows g2 h1)
  have h2 := g2.inv h1
  have hex := checkConfirmations_completed_exist (respPrepare s b height txs) txs height h1
  have hnd := checkConfirmations_nodup (respPrepare s b height txs) txs height h1
  have happ : ∀ k ∈ (checkConfirmations (respPrepare s b height txs) txs height).2,
      ((checkConfirmations (respPrepare s b height txs) txs height).1.db.appts k).isSome = true := by
    intro k hk
    rw [g2.appts]
    obtain ⟨t, ht⟩ := Option.isSome_iff_exists.mp (hex k hk)
    exact (h1.db.tracker_fk k t ht).1
  generalize hcc : checkConfirmations (respPrepare s b height txs) txs height = cc at *
  obtain ⟨s2, completed⟩ := cc
  simp only at h2 happ l2 hnd ⊢
  have l3 : HL s (if completed.isEmpty = true then s2 else deleteAppointments s2 completed true) := by
    split
    · exact l2
    · exact l2.trans (hl_delete_refund s2 completed h2 happ hnd)
  generalize hs3 : (if completed.isEmpty = true then s2 else deleteAppointments s2 completed true) = s3 at *
  have l4 : HL s (if s3.mem.reorged.isEmpty = true then (s3, ([] : List Uuid), ([] : List Rpc)) else handleReorgedTxs s3 node height).1 := by
    split
    · exact l3
    · exact l3.trans (hl_of_grows (grows_handleReorgedTxs s3 node height l3.1) l3.1)
  generalize hs4 : (if s3.mem.reorged.isEmpty = true then (s3, ([] : List Uuid), ([] : List Rpc)) else handleReorgedTxs s3 node height) = r4 at *
  obtain ⟨s4, rej1, log1⟩ := r4
  simp only at l4 ⊢
  have l5 := l4.trans (hl_of_grows (grows_rebroadcastStaleTxs s4 node height l4.1 hh) l4.1)
  generalize hs5 : rebroadcastStaleTxs s4 node height = r5 at *
  obtain ⟨s5, rej2, log2⟩ := r5
  simp only at l5 ⊢
  have l6 : HL s (if (rej1 ++ rej2).isEmpty = true then s5 else deleteAppointments s5 (rej1 ++ rej2) false) := by
    split
    · exact l5
    · exact l5.trans (hl_delete_norefund s5 _ l5.1)
  generalize (if (rej1 ++ rej2).isEmpty = true then s5 else deleteAppointments s5 (rej1 ++ rej2) false) = s6 at *
  exact l6.trans (hl_of_fr ⟨rfl, fun _ _ hx => hx⟩ l6.1
    ⟨l6.1.alive, l6.1.db, l6.1.dom, by intro tx r hr; simp at hr, l6.1.txi⟩)

theorem hl_watcherConnect (s : Tower) (node : Node) (b height : Nat) (txs : List TxId) (h : TInv s) :
    HL s (watcherConnect s node b height txs).1 := by
  unfold watcherConnect
  simp only
  generalize (txs.filter _) = disputes
  have h1 : TInv { s with mem := { s.mem with cache := s.mem.cache.update b (txs.map fun t => (locOf t, t)) } } :=
    ⟨h.alive, h.db, h.dom, h.memo, h.txi⟩
  have l1 : HL s { s with mem := { s.mem with cache := s.mem.cache.update b (txs.map fun t => (locOf t, t)) } } :=
    hl_of_fr ⟨rfl, fun _ _ hx => hx⟩ h h1
  have l2 := l1.trans (hl_of_grows (grows_handleBreaches _ node disputes h1) h1)
  generalize handleBreaches _ node disputes = r at *
  obtain ⟨s2, invalid, log⟩ := r
  simp only at l2 ⊢
  have l3 : HL s (if invalid.isEmpty = true then s2 else deleteAppointments s2 invalid false) := by
    split
    · exact l2
    · exact l2.trans (hl_delete_norefund s2 invalid l2.1)
  generalize (if invalid.isEmpty = true then s2 else deleteAppointments s2 invalid false) = s3 at *
  exact l3.trans (hl_of_fr ⟨rfl, fun _ _ hx => hx⟩ l3.1 ⟨l3.1.alive, l3.1.db, l3.1.dom, l3.1.memo, l3.1.txi⟩)

/-- a user without a record occupies nothing -/
theorem occ_absent (s : Tower) (h : TInv s) (u : User) (hu : s.mem.users u = none) : occ s.db u = 0 := by
  unfold occ
  apply sum_map_zero
  intro k _
  unfold cost
  cases ha : s.db.appts k with
  | none => rfl
  | some a =>
    simp only
    split
    · rename_i e
      have := (h.db.appt_fk k a ha).2
      rw [e, ← h.dom, hu] at this
      cases this
    · rfl

theorem held_absent (s : Tower) (h : TInv s) (u : User) (hu : s.mem.users u = none) : held s u = 0 := by
  unfold held avail
  rw [hu, occ_absent s h u hu]

/-- the gatekeeper's block handler: outdated users are removed with everything they hold; nobody else is touched -/
theorem hl_gkConnect (cfg : Cfg) (s : Tower) (height : Nat) (h : TInv s) : HL s (gkConnect cfg s height) := by
  have hi' := (tinv_gkConnect cfg s height h).1
  refine ⟨hi', fun u => ?_⟩
  by_cases hu : u ∈ outdatedUsers cfg s height
  · have : (gkConnect cfg s height).mem.users u = none := by rw [gkConnect_mem_users]; simp [hu]
    rw [held_absent _ hi' u this]
    exact Nat.zero_le _
  · unfold held
    have ha : avail (gkConnect cfg s height) u = avail s u := by
      unfold avail; rw [gkConnect_mem_users]; simp [hu]
    have ho : occ (gkConnect cfg s height).db u ≤ occ s.db u :=
      occ_le_of_sub s.db _ h.db hi'.db u (fun k a hk => by
        rw [gkConnect_db_appts] at hk
        split at hk
        · cases hk
        · exact hk)
    omega

theorem hl_connectBlock (cfg : Cfg) (s : Tower) (node : Node) (b height : Nat) (txs : List TxId) (h : TInv s)
    (hb : b ∉ s.mem.txIndex.blocks) (hh : Gen.CONFIRMATIONS_BEFORE_RETRY ≤ height) :
    HL s (connectBlock cfg s node b height txs).1 := by
  unfold connectBlock
  simp only
  have l1 := hl_gkConnect cfg s height h
  obtain ⟨_, t1⟩ := tinv_gkConnect cfg s height h
  have l2 := l1.trans (hl_watcherConnect (gkConnect cfg s height) node b height txs l1.1)
  obtain ⟨_, t2⟩ := tinv_watcherConnect (gkConnect cfg s height) node b height txs l1.1
  exact l2.trans (hl_respConnect _ node b height txs l2.1 (by rw [t2, t1]; exact hb) hh)

theorem hl_disconnectBlock (s : Tower) (b height : Nat) (h : TInv s)
    (hv : s.mem.txIndex.txIn b = none ∨ s.mem.txIndex.blocks.getLast? = some b) :
    HL s (disconnectBlock s b height) := by
  refine hl_of_fr ⟨?_, ?_⟩ h (tinv_disconnectBlock s b height h hv)
  · unfold disconnectBlock watcherDisconnect respDisconnect; rfl
  · intro k a hk
    unfold disconnectBlock watcherDisconnect respDisconnect at hk
    exact hk

theorem occ_congr (d d' : Db) (hd : DbInv d) (hd' : DbInv d') (u : User) (h : d'.appts = d.appts) : occ d' u = occ d u :=
  Nat.le_antisymm (occ_le_of_sub d d' hd hd' u (fun k a hk => by rw [← h]; exact hk))
    (occ_le_of_sub d' d hd' hd u (fun k a hk => by rw [h]; exact hk))

theorem slotsOf_zero : slotsOf 0 = 0 := by decide

/-- what `k` occupies, as the gatekeeper computes it -/
theorem cost_eq_used (d : Db) (u : User) (k : Uuid) (hk : k.2 = u) :
    cost d u k = slotsOf (((d.appts k).map fun a => a.blob.len).getD 0) := by
  unfold cost
  cases d.appts k with
  | none => simp [slotsOf_zero]
  | some a => simp [hk]

/-- the charge: either refused (nothing changes) or the requester's balance moves by the difference between
what the new blob needs and what the stored version occupies; nobody else's does; no row changes -/
theorem charge_spec (s : Tower) (usr : User) (k : Uuid) (len : Nat) (h : TInv s) (hk : k.2 = usr)
    (hu : (s.mem.users usr).isSome = true) :
    ((addUpdateAppointment s usr k len).2 = none → (addUpdateAppointment s usr k len).1 = s) ∧
    ((addUpdateAppointment s usr k len).2.isSome = true →
      (addUpdateAppointment s usr k len).1.db.appts = s.db.appts ∧
      ∀ u, held (addUpdateAppointment s usr k len).1 u + (if k.2 = u then slotsOf len else 0) =
           held s u + cost s.db u k) := by
  have hi' := (tinv_addUpdateAppointment s usr k len h hu).1
  obtain ⟨ui, hui⟩ := Option.isSome_iff_exists.mp hu
  have hused := cost_eq_used s.db usr k hk
  revert hi'
  unfold addUpdateAppointment
  simp only [hui, Gen.slotsFit]
  generalize hU : slotsOf ((Option.map (fun a => a.blob.len) (s.db.appts k)).getD 0) = used at hused
  generalize slotsOf len = req
  by_cases hfit : ((req : Int) - (used : Int) ≤ (ui.slots : Int))
  · have hd : decide ((req : Int) - (used : Int) ≤ (ui.slots : Int)) = true := decide_eq_true hfit
    simp only [hd, ↓reduceIte]
    intro hi'
    refine ⟨fun hx => (by cases hx), fun _ => ⟨Db.updateUser_appts _ _ _, fun u => ?_⟩⟩
    have hocc := occ_congr s.db _ h.db hi'.db u (Db.updateUser_appts s.db usr _)
    unfold held
    rw [hocc]
    unfold avail
    simp only
    by_cases e : u = usr
    · subst e
      simp only [↓reduceIte, hui, hk, hused]
      omega
    · have e' : ¬ k.2 = u := by rw [hk]; exact fun x => e x.symm
      have hc : cost s.db u k = 0 := by
        unfold cost
        cases s.db.appts k with
        | none => rfl
        | some a => simp [e']
      simp only [e, e', ↓reduceIte, hc]
  · have hd : decide ((req : Int) - (used : Int) ≤ (ui.slots : Int)) = false := decide_eq_false hfit
    simp only [hd, Bool.false_eq_true, ↓reduceIte]
    intro _
    exact ⟨fun _ => trivial, fun hx => (by cases hx)⟩

/-- storing (inserting or replacing) the row of `k`: what it occupied is released, what the new blob needs is taken -/
theorem store_held (s : Tower) (k : Uuid) (a : Appt) (h : TInv s) (hu : a.user = k.2)
    (hk : (s.db.users k.2).isSome = true) (u : User) :
    held (storeAppointment s k a) u + cost s.db u k ≤ held s u + (if k.2 = u then slotsOf a.blob.len else 0) := by
  obtain ⟨hi', hm⟩ := tinv_storeAppointment s k a h hu hk
  obtain ⟨_, _, h3, h4⟩ := storeAppointment_spec s k a
  have hset := occ_set s.db (storeAppointment s k a).db h.db hi'.db u k h3
  have hc : cost (storeAppointment s k a).db u k ≤ (if k.2 = u then slotsOf a.blob.len else 0) := by
    unfold cost
    cases ha' : (storeAppointment s k a).db.appts k with
    | none => exact Nat.zero_le _
    | some a' =>
      simp only
      rw [h4 a' ha']
      exact Nat.le_refl _
  unfold held avail
  rw [hm]
  omega

/-- a late appointment (its dispute is in the cache): stored and handed to the responder, or dropped together
with the version it replaces -/
theorem storeTriggered_held (s : Tower) (node : Node) (k : Uuid) (a : Appt) (d : TxId) (h : TInv s)
    (hu : a.user = k.2) (hk : (s.db.users k.2).isSome = true) (u : User) :
    held (storeTriggeredAppointment s node k a d).1 u + cost s.db u k ≤
      held s u + (if k.2 = u then slotsOf a.blob.len else 0) := by
  unfold storeTriggeredAppointment
  cases hdc : a.blob.decrypt d with
  | none =>
    simp only
    obtain ⟨hi', hm⟩ := tinv_delete_norefund s [k] h
    have happ : ∀ x, x ≠ k → (deleteAppointments s [k] false).db.appts x = s.db.appts x := by
      intro x hx
      unfold deleteAppointments
      simp only [Bool.false_eq_true, ↓reduceIte]
      rw [Db.removeAppts_appts]
      simp [hx]
    have hkn : (deleteAppointments s [k] false).db.appts k = none := by
      unfold deleteAppointments
      simp only [Bool.false_eq_true, ↓reduceIte]
      rw [Db.removeAppts_appts]
      simp
    have hset := occ_set s.db (deleteAppointments s [k] false).db h.db hi'.db u k happ
    have hc : cost (deleteAppointments s [k] false).db u k = 0 := by unfold cost; rw [hkn]
    unfold held avail
    rw [hm]
    omega
  | some p =>
    simp only
    have h1 := (tinv_storeAppointment s k a h hu hk).1
    have b1 := store_held s k a h hu hk u
    have l2 := hl_of_grows (grows_handleBreach (storeAppointment s k a) node k d p a.user h1) h1
    have b2 := l2.2 u
    split
    · have b3 := (hl_delete_norefund _ [k] l2.1).2 u
      dsimp only
      omega
    · dsimp only
      omega

/-- **a submission never leaves its sender (or anyone) with more than before**: the charge moves the balance by
the difference, and what is then stored, handed over or dropped accounts for it -/
theorem hl_addAppointment (s : Tower) (node : Node) (sg : Option User) (l : Loc) (b : Blob) (t w : Nat)
    (h : TInv s) : HL s (addAppointment s node sg l b t w).1 := by
  refine ⟨tinv_addAppointment s node sg l b t w h, fun x => ?_⟩
  unfold addAppointment
  cases ha : authCheck s sg with
  | error e => exact Nat.le_refl _
  | ok p =>
    obtain ⟨usr, ui⟩ := p
    simp only
    have hm := authCheck_ok_mem s sg usr ui ha
    split
    · exact Nat.le_refl _
    · obtain ⟨h1, _, hdu, _⟩ := tinv_addUpdateAppointment s usr (l, usr) b.len h (by simp [hm])
      obtain ⟨c0, c1⟩ := charge_spec s usr (l, usr) b.len h rfl (by simp [hm])
      generalize haa : addUpdateAppointment s usr (l, usr) b.len = r at *
      obtain ⟨s1, av⟩ := r
      simp only at h1 hdu c0 c1 ⊢
      cases av with
      | none => rw [c0 rfl]; exact Nat.le_refl _
      | some avail =>
        simp only
        obtain ⟨ca, ch⟩ := c1 rfl
        have chx := ch x
        have hcost : cost s1.db x (l, usr) = cost s.db x (l, usr) := by unfold cost; rw [ca]
        split
        · have := storeTriggered_held s1 node (l, usr)
            { loc := l, user := usr, blob := b, tsd := t, usig := w, start := s.mem.wHeight } ‹_› h1 rfl hdu x
          simp only at this
          try dsimp only
          omega
        · have := store_held s1 (l, usr)
            { loc := l, user := usr, blob := b, tsd := t, usig := w, start := s.mem.wHeight } h1 rfl hdu x
          simp only at this
          try dsimp only
          omega

/-- a registration grants exactly the configured slots to the registrant (nothing when refused) -/
theorem held_addUpdateUser (cfg : Cfg) (s : Tower) (u0 : User) (h : TInv s) (u : User) :
    held (addUpdateUser cfg s u0).1 u ≤
      held s u + (if u = u0 ∧ (addUpdateUser cfg s u0).2.isSome = true then cfg.slots else 0) := by
  have hi' := tinv_addUpdateUser cfg s u0 h
  revert hi'
  unfold addUpdateUser
  cases hu : s.mem.users u0 with
  | some ui =>
    simp only
    split
    · intro _; simp
    · intro hi'
      simp only at hi' ⊢
      have hocc := occ_congr s.db _ h.db hi'.db u (Db.updateUser_appts s.db u0 _)
      unfold held
      rw [hocc]
      unfold avail
      simp only
      by_cases e : u = u0
      · subst e; simp only [↓reduceIte, hu, Option.isSome_some, and_self]; omega
      · simp only [e, ↓reduceIte, false_and]; omega
  | none =>
    simp only
    have hdn : s.db.users u0 = none := by
      have := h.dom u0
      rw [hu] at this
      cases hd : s.db.users u0 with
      | none => rfl
      | some x => rw [hd] at this; cases this
    have : ∃ d', s.db.storeUser u0 { slots := cfg.slots, start := s.mem.gkHeight, expiry := s.mem.gkHeight + cfg.duration } = some d' := by
      unfold Db.storeUser; simp [hdn]
    obtain ⟨d', hd'⟩ := this
    simp only [hd']
    intro hi'
    have happ : d'.appts = s.db.appts := by
      unfold Db.storeUser at hd'
      simp only [hdn, Option.some.injEq] at hd'
      subst hd'; rfl
    have hocc := occ_congr s.db d' h.db hi'.db u happ
    unfold held
    simp only
    rw [hocc]
    unfold avail
    simp only
    by_cases e : u = u0
    · subst e; simp only [↓reduceIte, hu, Option.isSome_some, and_self]; omega
    · simp only [e, ↓reduceIte, false_and]; omega

theorem held_register (cfg : Cfg) (s : Tower) (u0 : User) (h : TInv s) (u : User) :
    held (register cfg s u0).1 u ≤
      held s u + (if u = u0 ∧ (register cfg s u0).2 ≠ .maxSlots then cfg.slots else 0) := by
  have := held_addUpdateUser cfg s u0 h u
  unfold register
  generalize addUpdateUser cfg s u0 = r at *
  obtain ⟨s', o⟩ := r
  cases o with
  | none => simpa using this
  | some ui => simpa using this

/-- what an operation grants to `u`: the configured slots when it is `u`'s registration and is not refused -/
def granted (cfg : Cfg) (s : Tower) : Op → User → Nat
  | .register v, u => if u = v ∧ (register cfg s v).2 ≠ .maxSlots then cfg.slots else 0
  | _, _ => 0

/-- **one step of any history**: nobody's available + occupied slots grow by more than the step grants -/
theorem held_step (cfg : Cfg) (s : Tower) (node : Node) (op : Op) (h : TInv s) (hv : OpValid s op) (u : User) :
    held (step cfg s node op).1 u ≤ held s u + granted cfg s op u := by
  have ha : s.aborted.isSome = false := by rw [h.alive]; rfl
  cases op with
  | register v =>
    simp only [step, ha, Bool.false_eq_true, ↓reduceIte, granted]
    exact held_register cfg s v h u
  | add sg l b t w =>
    simp only [step, ha, Bool.false_eq_true, ↓reduceIte, granted, Nat.add_zero]
    exact (hl_addAppointment s node sg l b t w h).2 u
  | get sg l => simp only [step, ha, Bool.false_eq_true, ↓reduceIte, granted, Nat.add_zero]; exact Nat.le_refl _
  | sub sg => simp only [step, ha, Bool.false_eq_true, ↓reduceIte, granted, Nat.add_zero]; exact Nat.le_refl _
  | connect b hgt txs =>
    simp only [step, ha, Bool.false_eq_true, ↓reduceIte, granted, Nat.add_zero]
    exact (hl_connectBlock cfg s node b hgt txs h hv.1 hv.2).2 u
  | disconnect b hgt =>
    simp only [step, ha, Bool.false_eq_true, ↓reduceIte, granted, Nat.add_zero]
    exact (hl_disconnectBlock s b hgt h hv).2 u

/-- the ghost record of grants: what each user was granted since their current record began (a record that is
removed — subscription expired past the grace period — takes its grants with it) -/
def grantsAfter (cfg : Cfg) (s : Tower) (node : Node) (op : Op) (g : User → Nat) : User → Nat := fun u =>
  if ((step cfg s node op).1.mem.users u).isSome then g u + granted cfg s op u else 0

def runGrants (cfg : Cfg) : Tower → (User → Nat) → List (Node × Op) → Tower × (User → Nat)
  | s, g, [] => (s, g)
  | s, g, (node, op) :: rest => runGrants cfg (step cfg s node op).1 (grantsAfter cfg s node op g) rest

theorem runGrants_fst (cfg : Cfg) : ∀ (hist : List (Node × Op)) (s : Tower) (g : User → Nat),
    (runGrants cfg s g hist).1 = runHistory cfg s hist
  | [], _, _ => rfl
  | (node, op) :: rest, s, g => by
    simp only [runGrants, runHistory]
    exact runGrants_fst cfg rest _ _

/-- **in every state of every history** nobody has more available + occupied slots than they were granted -/
theorem held_le_granted (cfg : Cfg) : ∀ (hist : List (Node × Op)) (s : Tower) (g : User → Nat), TInv s →
    HistoryValid cfg s hist → (∀ u, held s u ≤ g u) →
    ∀ u, held (runGrants cfg s g hist).1 u ≤ (runGrants cfg s g hist).2 u := by
  intro hist
  induction hist with
  | nil => intro s g _ _ hg; exact hg
  | cons x rest ih =>
    intro s g h hv hg
    obtain ⟨node, op⟩ := x
    simp only [runGrants]
    have h' := tinv_step cfg s node op h hv.1
    apply ih _ _ h' hv.2
    intro u
    unfold grantsAfter
    cases hu : (step cfg s node op).1.mem.users u with
    | none =>
      simp only [Option.isSome_none, Bool.false_eq_true, ↓reduceIte]
      rw [held_absent _ h' u hu]
      exact Nat.le_refl _
    | some ui =>
      simp only [Option.isSome_some, ↓reduceIte]
      have := held_step cfg s node op h hv.1 u
      have := hg u
      omega

end Teos
