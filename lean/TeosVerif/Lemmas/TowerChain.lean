/-
Lemmas for C04 at the level of whole histories: a tracker's "confirmed in block h" is true of the
active chain. The active chain is a ghost (`Chain`); the responder's index refines it (C19).
Core Lean only.
-/
import TeosVerif.Lemmas.TowerInv
import TeosVerif.Lemmas.TowerJust
import TeosVerif.Props.C19

namespace Teos
open TxIndex

/-- the active chain as the responder's index records it: (hash, [(txid, hash)]), oldest first -/
abbrev Chain := Win TxId Nat

def blockData (b : Nat) (txs : List TxId) : List (TxId × Nat) := txs.map fun t => (t, b)

/-- every entry of a block's data points to that block -/
def ChainWF (C : Chain) : Prop := ∀ blk, blk ∈ C → ∀ kv, kv ∈ blk.2 → kv.2 = blk.1

/-- the block at height `h` of the active chain (heights `base+1, base+2, …`) contains `p` -/
def ConfOk (C : Chain) (base : Nat) (p : TxId) (h : Nat) : Prop :=
  ∃ i, ∃ hi : i < C.length, base + i + 1 = h ∧ p ∈ (C[i]).2.map (·.1)

theorem ConfOk.append {C : Chain} {base : Nat} {p : TxId} {h : Nat} (c : ConfOk C base p h) (x : Nat × List (TxId × Nat)) :
    ConfOk (C ++ [x]) base p h := by
  obtain ⟨i, hi, e, hp⟩ := c
  refine ⟨i, by rw [List.length_append]; omega, e, ?_⟩
  rw [List.getElem_append_left hi]
  exact hp

/-- every tracker recorded as confirmed at height `h` is excused (in `R`) or true to the chain -/
def Conf (s : Tower) (R : List Uuid) (C : Chain) (base : Nat) : Prop :=
  ∀ k t h, s.db.trackers k = some t → t.status = .confirmedIn h → k ∈ R ∨ ConfOk C base t.penalty h

theorem Conf.mono {s : Tower} {R R' : List Uuid} {C : Chain} {base : Nat} (c : Conf s R C base)
    (hr : ∀ k, k ∈ R → k ∈ R') : Conf s R' C base := by
  intro k t h ht hs
  rcases c k t h ht hs with g | g
  · exact Or.inl (hr k g)
  · exact Or.inr g

theorem Conf.append {s : Tower} {R : List Uuid} {C : Chain} {base : Nat} (c : Conf s R C base)
    (x : Nat × List (TxId × Nat)) : Conf s R (C ++ [x]) base := by
  intro k t h ht hs
  rcases c k t h ht hs with g | g
  · exact Or.inl g
  · exact Or.inr (g.append x)

/-- no tracker row appears or changes between `s` and `s'` -/
def TrkSub (s s' : Tower) : Prop := ∀ k t, s'.db.trackers k = some t → s.db.trackers k = some t

theorem TrkSub.refl (s : Tower) : TrkSub s s := fun _ _ h => h
theorem TrkSub.trans {a b c : Tower} (h1 : TrkSub a b) (h2 : TrkSub b c) : TrkSub a c :=
  fun k t h => h1 k t (h2 k t h)

theorem Conf.sub {s s' : Tower} {R : List Uuid} {C : Chain} {base : Nat} (c : Conf s R C base)
    (h : TrkSub s s') : Conf s' R C base := fun k t hh ht hs => c k t hh (h k t ht) hs

theorem trkSub_of_eq (s s' : Tower) (h : s'.db.trackers = s.db.trackers) : TrkSub s s' :=
  fun k t ht => by rw [← h]; exact ht

theorem trkSub_deleteAppointments (s : Tower) (ks : List Uuid) (refund : Bool) :
    TrkSub s (deleteAppointments s ks refund) := by
  have key : ∀ (d' : Db) (s1 : Tower), s1.db.trackers = s.db.trackers →
      d'.trackers = (s1.db.dropAppts ks).trackers → TrkSub s { s1 with db := d' } := by
    intro d' s1 h1 h2 k t ht
    simp only [h2, Db.dropAppts] at ht
    split at ht
    · cases ht
    · rw [← h1]; exact ht
  unfold deleteAppointments
  cases refund with
  | false =>
    simp only [Bool.false_eq_true, ↓reduceIte]
    rcases removeAppts_tables s.db ks with ⟨_, h2⟩ | h
    · exact key _ s rfl h2
    · rw [h]; exact TrkSub.refl s
  | true =>
    simp only [↓reduceIte]
    obtain ⟨h1, _⟩ := refundLoop_frame ks (s, [])
    simp only at h1
    apply key _ _ (by rw [h1])
    unfold Db.removeApptsRefund
    simp only
    exact (foldl_setSlots_tables _ _).2

theorem trkSub_gkConnect (cfg : Cfg) (s : Tower) (H : Nat) : TrkSub s (gkConnect cfg s H) := by
  intro k t h
  rw [gkConnect_db_trackers] at h
  split at h
  · cases h
  · exact h

theorem gkConnect_reorged (cfg : Cfg) (s : Tower) (H : Nat) : (gkConnect cfg s H).mem.reorged = s.mem.reorged := by
  unfold gkConnect
  simp only
  split <;> rfl

/-! ### new trackers -/

theorem conf_addTracker (s : Tower) (R : List Uuid) (C : Chain) (base : Nat) (k : Uuid) (t : Tracker)
    (c : Conf s R C base) (hn : ∀ h, t.status = .confirmedIn h → ConfOk C base t.penalty h) :
    Conf (addTracker s k t) R C base := by
  unfold addTracker
  cases hst : s.db.storeTracker k t with
  | none => exact c
  | some db' =>
    unfold Db.storeTracker at hst
    split at hst
    · cases hst
    · split at hst
      · simp only [Option.some.injEq] at hst
        subst hst
        intro x t' h ht' hs
        simp only at ht'
        by_cases e : x = k
        · subst e
          simp only [↓reduceIte, Option.some.injEq] at ht'
          subst ht'
          exact Or.inr (hn h hs)
        · simp only [e, ↓reduceIte] at ht'
          exact c x t' h ht' hs
      · cases hst

/-- what the index says about a transaction is true of the chain -/
theorem index_height_true {t : TxIndex TxId Nat} {C : Chain} {base : Nat} (inv : Inv t C base) (wf : ChainWF C)
    (p : TxId) (b h : Nat) (hg : t.get p = some b) (hh : t.getHeight b = some h) : ConfOk C base p h := by
  obtain ⟨blk, hblk, hmem⟩ := C19.no_stale inv p b hg
  have hC : blk ∈ C := List.mem_of_mem_drop hblk
  obtain ⟨i, hi, e⟩ := List.mem_iff_getElem.1 hC
  have hb : b = (C[i]).1 := by rw [e]; exact wf blk hC (p, b) hmem
  have ht := C19.height_true inv i hi
  rw [← hb, hh] at ht
  refine ⟨i, hi, ?_, ?_⟩
  · split at ht
    · simp only [Option.some.injEq] at ht; exact ht.symm
    · cases ht
  · rw [e]
    exact List.mem_map.2 ⟨(p, b), hmem, rfl⟩

theorem trackers_mem_only (s : Tower) (m : Mem) : ({ s with mem := m } : Tower).db.trackers = s.db.trackers := rfl

theorem conf_handleBreach (s : Tower) (R : List Uuid) (C : Chain) (base : Nat) (node : Node) (k : Uuid) (d p : TxId)
    (u : User) (hinv : TInv s) (idx : Inv s.mem.txIndex C base) (wf : ChainWF C) (c : Conf s R C base) :
    Conf (handleBreach s node k d p u).1 R C base := by
  unfold handleBreach
  cases hg : s.mem.txIndex.get p with
  | some b =>
    simp only
    cases hh : s.mem.txIndex.getHeight b with
    | none => simp only; exact c.sub (trkSub_of_eq _ _ (by rw [abort_db]))
    | some h =>
      simp only
      apply conf_addTracker s R C base k _ c
      intro h' e
      simp only [CStatus.confirmedIn.injEq] at e
      subst e
      exact index_height_true idx wf p b h hg hh
  | none =>
    simp only
    split
    · apply conf_addTracker s R C base k _ c
      intro h' e
      cases e
    · have hc := carrierSend_spec s.mem node p hinv.memo
      simp only at hc
      have c1 : Conf { s with mem := (carrierSend s.mem node p).1 } R C base := c
      split
      · apply conf_addTracker _ R C base k _ c1
        intro h' e
        exact absurd e (hc.2.1 h')
      · exact c1

/-! ### the watcher -/

/-- loop state: consistent, same index, same reorged set, and true to the chain -/
structure WOk (R : List Uuid) (C : Chain) (base : Nat) (s : Tower) : Prop where
  tinv : TInv s
  idx : Inv s.mem.txIndex C base
  conf : Conf s R C base

theorem wok_breachStep (R : List Uuid) (C : Chain) (base : Nat) (wf : ChainWF C) (node : Node) (d : TxId)
    (acc : Tower × List Uuid × List Rpc) (k : Uuid) (hk : (acc.1.db.appts k).isSome = true)
    (h : WOk R C base acc.1) : WOk R C base (breachStep node d acc k).1 := by
  have g := grows_breachStep node d acc k h.tinv hk
  refine ⟨g.inv h.tinv, by rw [g.txi]; exact h.idx, ?_⟩
  obtain ⟨s, inv, log⟩ := acc
  unfold breachStep
  simp only at hk h ⊢
  obtain ⟨a, ha⟩ := Option.isSome_iff_exists.mp hk
  simp only [ha]
  cases hdc : a.blob.decrypt d with
  | none => exact h.conf
  | some p =>
    simp only
    have := conf_handleBreach s R C base node k d p a.user h.tinv h.idx wf h.conf
    split <;> exact this

theorem wok_breach_loop (R : List Uuid) (C : Chain) (base : Nat) (wf : ChainWF C) (node : Node) (d : TxId) :
    ∀ (ks : List Uuid) (acc : Tower × List Uuid × List Rpc), WOk R C base acc.1 →
    (∀ k ∈ ks, (acc.1.db.appts k).isSome = true) → WOk R C base (ks.foldl (breachStep node d) acc).1 := by
  intro ks
  induction ks with
  | nil => intro acc h _; exact h
  | cons k ks ih =>
    intro acc h hk
    have g1 := grows_breachStep node d acc k h.tinv (hk k (by simp))
    exact ih _ (wok_breachStep R C base wf node d acc k (hk k (by simp)) h)
      (fun x hx => by rw [g1.appts]; exact hk x (by simp [hx]))

theorem wok_disputeStep (R : List Uuid) (C : Chain) (base : Nat) (wf : ChainWF C) (node : Node)
    (acc : Tower × List Uuid × List Rpc) (d : TxId) (h : WOk R C base acc.1) :
    WOk R C base (disputeStep node acc d).1 := by
  unfold disputeStep
  apply wok_breach_loop R C base wf node d _ acc h
  intro k hk
  unfold Db.uuidsWithLoc Db.liveAppts at hk
  simp only [List.mem_filter] at hk
  exact hk.1.2

theorem wok_handleBreaches (R : List Uuid) (C : Chain) (base : Nat) (wf : ChainWF C) (node : Node) (s : Tower)
    (disputes : List TxId) (h : WOk R C base s) : WOk R C base (handleBreaches s node disputes).1 := by
  unfold handleBreaches
  exact foldl_preserves (fun acc : Tower × List Uuid × List Rpc => WOk R C base acc.1) (disputeStep node)
    (fun acc d ha => wok_disputeStep R C base wf node acc d ha) disputes (s, [], []) h

/-! the watcher never touches the responder's `reorged` set -/

theorem addTracker_mem (s : Tower) (k : Uuid) (t : Tracker) : (addTracker s k t).mem = s.mem := by
  unfold addTracker; split <;> rfl

theorem carrierSend_reorged (m : Mem) (node : Node) (tx : TxId) : (carrierSend m node tx).1.reorged = m.reorged := by
  unfold carrierSend; split <;> rfl

theorem handleBreach_reorged (s : Tower) (node : Node) (k : Uuid) (d p : TxId) (u : User) :
    (handleBreach s node k d p u).1.mem.reorged = s.mem.reorged := by
  unfold handleBreach
  split
  · split
    · rw [abort_mem]
    · rw [addTracker_mem]
  · split
    · rw [addTracker_mem]
    · simp only
      split
      · rw [addTracker_mem]; exact carrierSend_reorged _ _ _
      · exact carrierSend_reorged _ _ _

theorem breachStep_reorged (node : Node) (d : TxId) (acc : Tower × List Uuid × List Rpc) (k : Uuid) :
    (breachStep node d acc k).1.mem.reorged = acc.1.mem.reorged := by
  obtain ⟨s, inv, log⟩ := acc
  unfold breachStep
  simp only
  split
  · rw [abort_mem]
  · split
    · split <;> exact handleBreach_reorged _ _ _ _ _ _
    · rfl

theorem handleBreaches_reorged (s : Tower) (node : Node) (disputes : List TxId) :
    (handleBreaches s node disputes).1.mem.reorged = s.mem.reorged := by
  unfold handleBreaches
  refine foldl_preserves (fun acc : Tower × List Uuid × List Rpc => acc.1.mem.reorged = s.mem.reorged) (disputeStep node)
    ?_ disputes (s, [], []) rfl
  intro acc d ha
  unfold disputeStep
  exact foldl_preserves (fun a : Tower × List Uuid × List Rpc => a.1.mem.reorged = s.mem.reorged) (breachStep node d)
    (fun a k hh => by rw [breachStep_reorged]; exact hh) _ acc ha

theorem refundStep_reorged (acc : Tower × List User) (k : Uuid) :
    (refundStep acc k).1.mem.reorged = acc.1.mem.reorged := by
  obtain ⟨s, upd⟩ := acc
  unfold refundStep
  simp only
  split
  · rw [abort_mem]
  · split
    · rw [abort_mem]
    · rfl

theorem deleteAppointments_reorged (s : Tower) (ks : List Uuid) (refund : Bool) :
    (deleteAppointments s ks refund).mem.reorged = s.mem.reorged := by
  unfold deleteAppointments
  cases refund with
  | false => rfl
  | true =>
    simp only [↓reduceIte]
    exact foldl_preserves (fun a : Tower × List User => a.1.mem.reorged = s.mem.reorged) refundStep
      (fun a k hh => by rw [refundStep_reorged]; exact hh) ks (s, []) rfl

theorem wok_watcherConnect (R : List Uuid) (C : Chain) (base : Nat) (wf : ChainWF C) (node : Node) (s : Tower)
    (b height : Nat) (txs : List TxId) (h : WOk R C base s) :
    WOk R C base (watcherConnect s node b height txs).1 ∧
    (watcherConnect s node b height txs).1.mem.reorged = s.mem.reorged := by
  have ht := tinv_watcherConnect s node b height txs h.tinv
  unfold watcherConnect at ht ⊢
  simp only at ht ⊢
  have h1 : WOk R C base { s with mem := { s.mem with cache := s.mem.cache.update b (txs.map fun t => (locOf t, t)) } } :=
    ⟨⟨h.tinv.alive, h.tinv.db, h.tinv.dom, h.tinv.memo, h.tinv.txi⟩, h.idx, h.conf⟩
  have h2 := wok_handleBreaches R C base wf node _ (txs.filter fun t => !(Db.uuidsWithLoc s.db (locOf t)).isEmpty) h1
  have g2 := grows_handleBreaches { s with mem := { s.mem with cache := s.mem.cache.update b (txs.map fun t => (locOf t, t)) } }
    node (txs.filter fun t => !(Db.uuidsWithLoc s.db (locOf t)).isEmpty) h1.tinv
  have hre : (handleBreaches { s with mem := { s.mem with cache := s.mem.cache.update b (txs.map fun t => (locOf t, t)) } }
      node (txs.filter fun t => !(Db.uuidsWithLoc s.db (locOf t)).isEmpty)).1.mem.reorged = s.mem.reorged :=
    handleBreaches_reorged _ node _
  generalize handleBreaches _ node _ = r at *
  obtain ⟨s2, invalid, log⟩ := r
  simp only at h2 hre ht ⊢
  by_cases hi : invalid.isEmpty = true
  · simp only [hi, ↓reduceIte] at ht ⊢
    exact ⟨⟨ht.1, by rw [ht.2]; exact h.idx, h2.conf⟩, hre⟩
  · simp only [hi, Bool.false_eq_true, ↓reduceIte] at ht ⊢
    refine ⟨⟨ht.1, by rw [ht.2]; exact h.idx, h2.conf.sub (trkSub_deleteAppointments _ _ _)⟩, ?_⟩
    rw [← hre]
    exact deleteAppointments_reorged s2 invalid false

/-! ### the responder -/

theorem updateTrackerStatus_trackers {d d' : Db} {k : Uuid} {st : CStatus} (h : d.updateTrackerStatus k st = some d') :
    ∃ t, d.trackers k = some t ∧ ∀ x, d'.trackers x = if x = k then some { t with status := st } else d.trackers x := by
  unfold Db.updateTrackerStatus at h
  split at h
  · cases h
  · split at h
    · cases h
    · rename_i t ht
      simp only [Option.some.injEq] at h
      subst h
      exact ⟨t, ht, fun x => rfl⟩

theorem conf_confirmStep (C : Chain) (base : Nat) (txids : List TxId) (height : Nat)
    (hnew : ∀ p, p ∈ txids → ConfOk C base p height) (acc : Tower × List Uuid) (k : Uuid)
    (c : Conf acc.1 acc.1.mem.reorged C base) :
    Conf (confirmStep txids height acc k).1 (confirmStep txids height acc k).1.mem.reorged C base := by
  obtain ⟨s, done⟩ := acc
  unfold confirmStep
  simp only at c ⊢
  cases ht : s.db.trackers k with
  | none => exact c
  | some t =>
    simp only
    split
    · rename_i hp
      split
      · exact fun x t' h hx hs => c x t' h (by rw [abort_db] at hx; exact hx) hs |>.imp (by rw [abort_mem]; exact id) id
      · rename_i db' hdb
        obtain ⟨t0, ht0, hall⟩ := updateTrackerStatus_trackers hdb
        rw [ht] at ht0
        cases ht0
        intro x t' h hx hs
        simp only at hx ⊢
        rw [hall] at hx
        by_cases e : x = k
        · subst e
          simp only [↓reduceIte, Option.some.injEq] at hx
          subst hx
          simp only [CStatus.confirmedIn.injEq] at hs
          subst hs
          exact Or.inr (hnew _ hp)
        · simp only [e, ↓reduceIte] at hx
          rcases c x t' h hx hs with g | g
          · exact Or.inl (List.mem_filter.2 ⟨g, by simpa using e⟩)
          · exact Or.inr g
    · split
      · exact c
      · split
        · split
          · exact c
          · exact c
        all_goals exact c

theorem conf_checkConfirmations (C : Chain) (base : Nat) (txids : List TxId) (height : Nat)
    (hnew : ∀ p, p ∈ txids → ConfOk C base p height) (s : Tower) (c : Conf s s.mem.reorged C base) :
    Conf (checkConfirmations s txids height).1 (checkConfirmations s txids height).1.mem.reorged C base := by
  unfold checkConfirmations
  exact foldl_preserves (fun acc : Tower × List Uuid => Conf acc.1 acc.1.mem.reorged C base) (confirmStep txids height)
    (fun acc k ha => conf_confirmStep C base txids height hnew acc k ha) _ (s, []) c

/-- during the re-announcement loop: a tracker recorded as confirmed is still to be visited (`l`), was
rejected (to be deleted), or is true to the chain -/
def QR (l : List Uuid) (C : Chain) (base : Nat) (acc : Tower × List Uuid × List Rpc) : Prop :=
  ∀ k t h, acc.1.db.trackers k = some t → t.status = .confirmedIn h → k ∈ l ∨ k ∈ acc.2.1 ∨ ConfOk C base t.penalty h

theorem qr_reorgStep (C : Chain) (base : Nat) (node : Node) (height : Nat) (k : Uuid) (l : List Uuid)
    (acc : Tower × List Uuid × List Rpc) (hinv : TInv acc.1) (q : QR (k :: l) C base acc) :
    QR l C base (reorgStep node height acc k) := by
  obtain ⟨s, rej, log⟩ := acc
  simp only at hinv
  have same : ∀ (s' : Tower) (rej' : List Uuid) (log' : List Rpc), s'.db.trackers = s.db.trackers → k ∈ rej' →
      (∀ x, x ∈ rej → x ∈ rej') → QR l C base (s', rej', log') := by
    intro s' rej' log' htr hk hsub x t h hx hs
    simp only at hx
    rw [htr] at hx
    rcases q x t h hx hs with g | g | g
    · rcases List.mem_cons.1 g with e | g'
      · subst e; exact Or.inr (Or.inl hk)
      · exact Or.inl g'
    · exact Or.inr (Or.inl (hsub x g))
    · exact Or.inr (Or.inr g)
  unfold reorgStep
  simp only
  cases ht : s.db.trackers k with
  | none =>
    simp only
    intro x t h hx hs
    rcases q x t h hx hs with g | g | g
    · rcases List.mem_cons.1 g with e | g'
      · subst e; simp only at hx; rw [ht] at hx; cases hx
      · exact Or.inl g'
    · exact Or.inr (Or.inl g)
    · exact Or.inr (Or.inr g)
  | some t =>
    simp only
    have hc1 := carrierSend_spec s.mem node t.dispute hinv.memo
    simp only at hc1
    have upd : ∀ (m : Mem) (log' : List Rpc),
        QR l C base (match s.db.updateTrackerStatus k (.inMempoolSince height) with
          | none => (({ db := s.db, mem := m, aborted := s.aborted } : Tower).abort
              "responder.handle_reorged_txs: update_tracker_status", rej, log')
          | some db' => (({ db := db', mem := m, aborted := s.aborted } : Tower), rej, log')) := by
      intro m log'
      obtain ⟨d', hd'⟩ := updateTrackerStatus_some s.db k (.inMempoolSince height) t ht rfl
      simp only [hd']
      obtain ⟨t0, _, hall⟩ := updateTrackerStatus_trackers hd'
      intro x t' h hx hs
      simp only at hx
      rw [hall] at hx
      by_cases e : x = k
      · subst e
        simp only [↓reduceIte, Option.some.injEq] at hx
        subst hx
        cases hs
      · simp only [e, ↓reduceIte] at hx
        rcases q x t' h hx hs with g | g | g
        · rcases List.mem_cons.1 g with e' | g'
          · exact absurd e' e
          · exact Or.inl g'
        · exact Or.inr (Or.inl g)
        · exact Or.inr (Or.inr g)
    cases hst : (carrierSend s.mem node t.dispute).2.1 with
    | confirmedIn x => exact absurd hst (hc1.2.1 x)
    | rejected c =>
      simp only [hst]
      exact same _ _ _ rfl (List.mem_append.2 (Or.inr (List.mem_singleton.2 rfl)))
        (fun x hx => List.mem_append.2 (Or.inl hx))
    | inMempoolSince x =>
      simp only [hst]
      split
      · exact same _ _ _ rfl (List.mem_append.2 (Or.inr (List.mem_singleton.2 rfl)))
          (fun x hx => List.mem_append.2 (Or.inl hx))
      · exact upd _ _
    | irrevocablyResolved =>
      simp only [hst]
      split
      · exact same _ _ _ rfl (List.mem_append.2 (Or.inr (List.mem_singleton.2 rfl)))
          (fun x hx => List.mem_append.2 (Or.inl hx))
      · exact upd _ _

theorem qr_reorg_loop (C : Chain) (base : Nat) (node : Node) (height : Nat) :
    ∀ (l : List Uuid) (acc : Tower × List Uuid × List Rpc), TInv acc.1 → QR l C base acc →
    QR [] C base (l.foldl (reorgStep node height) acc)
  | [], _, _, q => q
  | k :: l, acc, hinv, q => by
    simp only [List.foldl_cons]
    exact qr_reorg_loop C base node height l _ ((grows_reorgStep node height acc k hinv).inv hinv)
      (qr_reorgStep C base node height k l acc hinv q)

theorem qr_handleReorgedTxs (C : Chain) (base : Nat) (node : Node) (height : Nat) (s : Tower) (hinv : TInv s)
    (c : Conf s s.mem.reorged C base) : QR [] C base (handleReorgedTxs s node height) := by
  unfold handleReorgedTxs
  apply qr_reorg_loop C base node height s.mem.reorged _
  · exact ⟨hinv.alive, hinv.db, hinv.dom, hinv.memo, hinv.txi⟩
  · intro k t h hx hs
    rcases c k t h hx hs with g | g
    · exact Or.inl g
    · exact Or.inr (Or.inr g)

/-- during the rebroadcast loop: confirmed trackers are rejected ones (old list `r1` or new) or true -/
def QB (r1 : List Uuid) (C : Chain) (base : Nat) (acc : Tower × List Uuid × List Rpc) : Prop :=
  ∀ k t h, acc.1.db.trackers k = some t → t.status = .confirmedIn h → k ∈ r1 ∨ k ∈ acc.2.1 ∨ ConfOk C base t.penalty h

theorem qb_rebroadcastStep (r1 : List Uuid) (C : Chain) (base : Nat) (node : Node) (height : Nat)
    (acc : Tower × List Uuid × List Rpc) (k : Uuid) (q : QB r1 C base acc) :
    QB r1 C base (rebroadcastStep node height acc k) := by
  obtain ⟨s, rej, log⟩ := acc
  unfold rebroadcastStep
  simp only
  cases ht : s.db.trackers k with
  | none =>
    simp only
    intro x t h hx hs
    rw [abort_db] at hx
    exact q x t h hx hs
  | some t =>
    simp only
    split
    · intro x t' h hx hs
      rcases q x t' h hx hs with g | g | g
      · exact Or.inl g
      · exact Or.inr (Or.inl (List.mem_append.2 (Or.inl g)))
      · exact Or.inr (Or.inr g)
    · split
      · intro x t' h hx hs
        rw [abort_db] at hx
        exact q x t' h hx hs
      · rename_i db' hdb
        obtain ⟨t0, _, hall⟩ := updateTrackerStatus_trackers hdb
        intro x t' h hx hs
        simp only at hx
        rw [hall] at hx
        by_cases e : x = k
        · subst e
          simp only [↓reduceIte, Option.some.injEq] at hx
          subst hx
          cases hs
        · simp only [e, ↓reduceIte] at hx
          exact q x t' h hx hs

theorem qb_rebroadcastStaleTxs (r1 : List Uuid) (C : Chain) (base : Nat) (node : Node) (height : Nat) (s : Tower)
    (q : QB r1 C base (s, [], [])) : QB r1 C base (rebroadcastStaleTxs s node height) := by
  unfold rebroadcastStaleTxs
  split
  · intro x t h hx hs
    rw [abort_db] at hx
    exact q x t h hx hs
  · exact foldl_preserves (QB r1 C base) (rebroadcastStep node height)
      (fun acc k ha => qb_rebroadcastStep r1 C base node height acc k ha) _ (s, [], []) q

/-- the invariant between operations -/
structure CInv (s : Tower) (C : Chain) (base : Nat) : Prop where
  tinv : TInv s
  idx : Inv s.mem.txIndex C base
  wf : ChainWF C
  conf : Conf s s.mem.reorged C base

theorem chainWF_append {C : Chain} (wf : ChainWF C) (b : Nat) (txs : List TxId) : ChainWF (C ++ [(b, blockData b txs)]) := by
  intro blk hblk kv hkv
  rcases List.mem_append.1 hblk with h | h
  · exact wf blk h kv hkv
  · simp only [List.mem_singleton] at h
    subst h
    simp only [blockData, List.mem_map] at hkv
    obtain ⟨t, _, rfl⟩ := hkv
    rfl

theorem removeAppts_tracker_gone (s : Tower) (hinv : TInv s) (ks : List Uuid) (k : Uuid) (hk : k ∈ ks) :
    (deleteAppointments s ks false).db.trackers k = none := by
  unfold deleteAppointments
  simp only [Bool.false_eq_true, ↓reduceIte]
  apply Db.removeAppts_trackers_mem _ _ _ hk
  intro hnone
  cases ht : s.db.trackers k with
  | none => rfl
  | some t =>
    have := (hinv.db.tracker_fk k t ht).1
    rw [hnone] at this
    cases this

/-- `Responder::filtered_block_connected` on the block that extends the chain -/
theorem cinv_respConnect (s : Tower) (C : Chain) (base : Nat) (node : Node) (b height : Nat) (txs : List TxId)
    (hinv : TInv s) (idx : Inv s.mem.txIndex C base) (wf : ChainWF C) (c : Conf s s.mem.reorged C base)
    (hval : Valid s.mem.txIndex C (.conn b (blockData b txs))) (hb : b ∉ s.mem.txIndex.blocks)
    (hheight : height = base + C.length + 1) (hh : Gen.CONFIRMATIONS_BEFORE_RETRY ≤ height) :
    CInv (respConnect s node b height txs).1 (C ++ [(b, blockData b txs)]) base ∧
    ∀ k t h, (respConnect s node b height txs).1.db.trackers k = some t → t.status = .confirmedIn h →
      ConfOk (C ++ [(b, blockData b txs)]) base t.penalty h := by
  have tfinal := tinv_respConnect s node b height txs hinv hb hh
  have wf' := chainWF_append wf b txs
  -- the new block's transactions are confirmed at `height`
  have hnew : ∀ p, p ∈ txs → ConfOk (C ++ [(b, blockData b txs)]) base p height := by
    intro p hp
    refine ⟨C.length, by rw [List.length_append]; simp, by omega, ?_⟩
    rw [List.getElem_append_right (Nat.le_refl _)]
    simp only [Nat.sub_self, List.getElem_cons_zero, blockData, List.map_map]
    exact List.mem_map.2 ⟨p, hp, rfl⟩
  have idx1 : Inv (respPrepare s b height txs).mem.txIndex (C ++ [(b, blockData b txs)]) base :=
    inv_step idx (.conn b (blockData b txs)) hval
  unfold respConnect at tfinal ⊢
  simp only at tfinal ⊢
  have h1 := tinv_respPrepare s b height txs hinv hb
  have c1 : Conf (respPrepare s b height txs) (respPrepare s b height txs).mem.reorged (C ++ [(b, blockData b txs)]) base :=
    c.append _
  have g2 := grows_checkConfirmations (respPrepare s b height txs) txs height h1
  have h2 := g2.inv h1
  have c2 := conf_checkConfirmations _ base txs height hnew (respPrepare s b height txs) c1
  have hex := checkConfirmations_completed_exist (respPrepare s b height txs) txs height h1
  have happ : ∀ k ∈ (checkConfirmations (respPrepare s b height txs) txs height).2,
      ((checkConfirmations (respPrepare s b height txs) txs height).1.db.appts k).isSome = true := by
    intro k hk
    rw [g2.appts]
    obtain ⟨t, ht⟩ := Option.isSome_iff_exists.mp (hex k hk)
    exact (h1.db.tracker_fk k t ht).1
  have ht2 := g2.txi
  generalize hcc : checkConfirmations (respPrepare s b height txs) txs height = cc at *
  obtain ⟨s2, completed⟩ := cc
  simp only at h2 happ c2 ht2 tfinal ⊢
  -- phase 3: completed trackers deleted with refund
  have h3 : TInv (if completed.isEmpty = true then s2 else deleteAppointments s2 completed true) ∧
      (if completed.isEmpty = true then s2 else deleteAppointments s2 completed true).mem.txIndex = s2.mem.txIndex ∧
      Conf (if completed.isEmpty = true then s2 else deleteAppointments s2 completed true)
        (if completed.isEmpty = true then s2 else deleteAppointments s2 completed true).mem.reorged
        (C ++ [(b, blockData b txs)]) base := by
    split
    · exact ⟨h2, rfl, c2⟩
    · obtain ⟨a1, a2, a3⟩ := tinv_delete_refund s2 completed h2 happ
      exact ⟨a1, a2, by rw [a3]; exact c2.sub (trkSub_deleteAppointments _ _ _)⟩
  generalize hs3 : (if completed.isEmpty = true then s2 else deleteAppointments s2 completed true) = s3 at *
  obtain ⟨h3a, h3b, h3c⟩ := h3
  -- phase 4: re-announce reorged trackers
  have h4 : TInv (if s3.mem.reorged.isEmpty = true then (s3, ([] : List Uuid), ([] : List Rpc)) else handleReorgedTxs s3 node height).1 ∧
      (if s3.mem.reorged.isEmpty = true then (s3, ([] : List Uuid), ([] : List Rpc)) else handleReorgedTxs s3 node height).1.mem.txIndex = s3.mem.txIndex ∧
      QR [] (C ++ [(b, blockData b txs)]) base
        (if s3.mem.reorged.isEmpty = true then (s3, ([] : List Uuid), ([] : List Rpc)) else handleReorgedTxs s3 node height) := by
    split
    · rename_i hemp
      refine ⟨h3a, rfl, ?_⟩
      intro k t h hx hs
      rcases h3c k t h hx hs with g | g
      · have : s3.mem.reorged = [] := by
          cases hr : s3.mem.reorged with
          | nil => rfl
          | cons _ _ => rw [hr] at hemp; cases hemp
        rw [this] at g; cases g
      · exact Or.inr (Or.inr g)
    · have g := grows_handleReorgedTxs s3 node height h3a
      exact ⟨g.inv h3a, g.txi, qr_handleReorgedTxs _ base node height s3 h3a h3c⟩
  generalize hs4 : (if s3.mem.reorged.isEmpty = true then (s3, ([] : List Uuid), ([] : List Rpc)) else handleReorgedTxs s3 node height) = r4 at *
  obtain ⟨s4, rej1, log1⟩ := r4
  obtain ⟨h4a, h4b, h4c⟩ := h4
  simp only at h4a h4b h4c tfinal ⊢
  -- phase 5: rebroadcast
  have g5 := grows_rebroadcastStaleTxs s4 node height h4a hh
  have h5 := g5.inv h4a
  have q5 : QB rej1 (C ++ [(b, blockData b txs)]) base (rebroadcastStaleTxs s4 node height) := by
    apply qb_rebroadcastStaleTxs
    intro k t h hx hs
    rcases h4c k t h hx hs with g | g | g
    · cases g
    · exact Or.inl g
    · exact Or.inr (Or.inr g)
  have ht5 := g5.txi
  generalize hs5 : rebroadcastStaleTxs s4 node height = r5 at *
  obtain ⟨s5, rej2, log2⟩ := r5
  simp only at h5 q5 ht5 tfinal ⊢
  -- phase 6: rejected trackers deleted
  have h6 : (if (rej1 ++ rej2).isEmpty = true then s5 else deleteAppointments s5 (rej1 ++ rej2) false).mem.txIndex = s5.mem.txIndex ∧
      ∀ k t h, (if (rej1 ++ rej2).isEmpty = true then s5 else deleteAppointments s5 (rej1 ++ rej2) false).db.trackers k = some t →
        t.status = .confirmedIn h → ConfOk (C ++ [(b, blockData b txs)]) base t.penalty h := by
    split
    · rename_i hemp
      have e : rej1 ++ rej2 = [] := by
        cases hr : rej1 ++ rej2 with
        | nil => rfl
        | cons _ _ => rw [hr] at hemp; cases hemp
      refine ⟨rfl, ?_⟩
      intro k t h hx hs
      rcases q5 k t h hx hs with g | g | g
      · have : k ∈ rej1 ++ rej2 := List.mem_append.2 (Or.inl g)
        rw [e] at this; cases this
      · have : k ∈ rej1 ++ rej2 := List.mem_append.2 (Or.inr g)
        rw [e] at this; cases this
      · exact g
    · refine ⟨by rw [(tinv_delete_norefund s5 _ h5).2], ?_⟩
      intro k t h hx hs
      have hsub := trkSub_deleteAppointments s5 (rej1 ++ rej2) false k t hx
      rcases q5 k t h hsub hs with g | g | g
      · rw [removeAppts_tracker_gone s5 h5 _ k (List.mem_append.2 (Or.inl g))] at hx; cases hx
      · rw [removeAppts_tracker_gone s5 h5 _ k (List.mem_append.2 (Or.inr g))] at hx; cases hx
      · exact g
  refine ⟨⟨tfinal, ?_, wf', ?_⟩, fun k t h hx hs => h6.2 k t h hx hs⟩
  · simp only
    rw [h6.1, ht5, h4b, h3b, ht2]
    exact idx1
  · intro k t h hx hs
    exact Or.inr (h6.2 k t h hx hs)

/-! ### disconnection -/

theorem mem_foldl_addKey (x : Uuid) : ∀ (l init : List Uuid),
    x ∈ l.foldl (fun acc k => Db.addKey k acc) init ↔ x ∈ init ∨ x ∈ l
  | [], init => by simp
  | k :: r, init => by
    simp only [List.foldl_cons]
    rw [mem_foldl_addKey x r, mem_addKey]
    simp only [List.mem_cons]
    constructor
    · rintro ((h | h) | h)
      · exact Or.inr (Or.inl h)
      · exact Or.inl h
      · exact Or.inr (Or.inr h)
    · rintro (h | h | h)
      · exact Or.inl (Or.inr h)
      · exact Or.inl (Or.inl h)
      · exact Or.inr h

theorem cinv_respDisconnect (s : Tower) (C : Chain) (base : Nat) (b height : Nat)
    (h : CInv s C base) (hval : Valid s.mem.txIndex C (.disc b)) (hheight : height = base + C.length)
    (hv : s.mem.txIndex.txIn b = none ∨ s.mem.txIndex.blocks.getLast? = some b) :
    CInv (respDisconnect s b height) C.dropLast base := by
  have t' := tinv_respDisconnect s b height h.tinv hv
  have idx' : Inv (s.mem.txIndex.removeDisconnected b) C.dropLast base := inv_step h.idx (.disc b) hval
  refine ⟨t', ?_, fun blk hblk => h.wf blk (List.dropLast_subset C hblk), ?_⟩
  · unfold respDisconnect; exact idx'
  · unfold respDisconnect
    intro k t hh hx hs
    simp only at hx ⊢
    rw [mem_foldl_addKey]
    rcases h.conf k t hh hx hs with g | ⟨i, hi, e, hp⟩
    · exact Or.inl (Or.inl g)
    · by_cases hlast : i + 1 < C.length
      · refine Or.inr ⟨i, by rw [List.length_dropLast]; omega, e, ?_⟩
        rw [List.getElem_dropLast]
        exact hp
      · -- the tracker was confirmed in the block being disconnected
        refine Or.inl (Or.inr ?_)
        simp only [List.mem_filter, Db.liveTrackers, hx, hs, Option.isSome_some, and_true]
        refine ⟨h.tinv.db.appt_keys k (h.tinv.db.tracker_fk k t hx).1, ?_⟩
        simp only [Gen.confirmedCmp, decide_eq_true_eq]
        omega

/-! ### requests -/

theorem addUpdateAppointment_reorged (s : Tower) (u : User) (k : Uuid) (len : Nat) :
    (addUpdateAppointment s u k len).1.mem.reorged = s.mem.reorged := by
  unfold addUpdateAppointment
  split
  · rw [abort_mem]
  · simp only
    split <;> rfl

theorem register_frame (cfg : Cfg) (s : Tower) (u : User) :
    (register cfg s u).1.db.trackers = s.db.trackers ∧ (register cfg s u).1.mem.txIndex = s.mem.txIndex ∧
    (register cfg s u).1.mem.reorged = s.mem.reorged := by
  have key : (addUpdateUser cfg s u).1.db.trackers = s.db.trackers ∧ (addUpdateUser cfg s u).1.mem.txIndex = s.mem.txIndex ∧
      (addUpdateUser cfg s u).1.mem.reorged = s.mem.reorged := by
    unfold addUpdateUser
    simp only
    split
    · split
      · exact ⟨rfl, rfl, rfl⟩
      · exact ⟨by simp, rfl, rfl⟩
    · split
      · exact ⟨by rw [abort_db], by rw [abort_mem], by rw [abort_mem]⟩
      · rename_i db' hdb
        unfold Db.storeUser at hdb
        split at hdb
        · cases hdb
        · simp only [Option.some.injEq] at hdb
          subst hdb
          exact ⟨rfl, rfl, rfl⟩
  unfold register
  split <;> rename_i h <;> rw [h] at key <;> exact key

/-- what a request leaves alone, and keeps true -/
structure AOk (R : List Uuid) (C : Chain) (base : Nat) (s0 s : Tower) : Prop where
  tinv : TInv s
  txi : s.mem.txIndex = s0.mem.txIndex
  re : s.mem.reorged = s0.mem.reorged
  conf : Conf s R C base

theorem aok_storeTriggered (R : List Uuid) (C : Chain) (base : Nat) (wf : ChainWF C) (s0 s : Tower) (node : Node)
    (k : Uuid) (a : Appt) (d : TxId) (h : AOk R C base s0 s) (idx : Inv s0.mem.txIndex C base)
    (hu : a.user = k.2) (hk : (s.db.users k.2).isSome = true) :
    AOk R C base s0 (storeTriggeredAppointment s node k a d).1 := by
  unfold storeTriggeredAppointment
  cases hdc : a.blob.decrypt d with
  | none =>
    obtain ⟨t3, m3⟩ := tinv_delete_norefund s [k] h.tinv
    exact ⟨t3, by rw [m3]; exact h.txi, by rw [m3]; exact h.re, h.conf.sub (trkSub_deleteAppointments _ _ _)⟩
  | some p =>
    simp only
    obtain ⟨h1, hm1⟩ := tinv_storeAppointment s k a h.tinv hu hk
    have htr1 := (storeAppointment_spec s k a).1
    have c1 : Conf (storeAppointment s k a) R C base := h.conf.sub (trkSub_of_eq _ _ htr1)
    have g2 := grows_handleBreach (storeAppointment s k a) node k d p a.user h1
    have h2 := g2.inv h1
    have idx1 : Inv (storeAppointment s k a).mem.txIndex C base := by rw [hm1, h.txi]; exact idx
    have c2 := conf_handleBreach (storeAppointment s k a) R C base node k d p a.user h1 idx1 wf c1
    have a2 : AOk R C base s0 (handleBreach (storeAppointment s k a) node k d p a.user).1 :=
      ⟨h2, by rw [g2.txi, hm1]; exact h.txi, by rw [handleBreach_reorged, hm1]; exact h.re, c2⟩
    split
    · obtain ⟨t3, m3⟩ := tinv_delete_norefund _ [k] h2
      exact ⟨t3, by rw [m3]; exact a2.txi, by rw [m3]; exact a2.re, c2.sub (trkSub_deleteAppointments _ _ _)⟩
    · exact a2

theorem aok_addAppointment (C : Chain) (base : Nat) (s : Tower) (node : Node) (sg : Option User) (l : Loc) (b : Blob)
    (t u : Nat) (h : CInv s C base) :
    AOk s.mem.reorged C base s (addAppointment s node sg l b t u).1 := by
  have h0 : AOk s.mem.reorged C base s s := ⟨h.tinv, rfl, rfl, h.conf⟩
  unfold addAppointment
  cases ha : authCheck s sg with
  | error e => exact h0
  | ok p =>
    obtain ⟨usr, ui⟩ := p
    simp only
    have hm := authCheck_ok_mem s sg usr ui ha
    split
    · exact h0
    · obtain ⟨h1, htx, hdu, htr⟩ := tinv_addUpdateAppointment s usr (l, usr) b.len h.tinv (by simp [hm])
      have hre := addUpdateAppointment_reorged s usr (l, usr) b.len
      generalize haa : addUpdateAppointment s usr (l, usr) b.len = r at *
      obtain ⟨s1, av⟩ := r
      simp only at h1 hdu htx htr hre ⊢
      have a1 : AOk s.mem.reorged C base s s1 := ⟨h1, htx, hre, h.conf.sub (trkSub_of_eq _ _ htr)⟩
      cases av with
      | none => exact a1
      | some avail =>
        simp only
        split
        · exact aok_storeTriggered _ C base h.wf s s1 node (l, usr) _ _ a1 h.idx rfl hdu
        · obtain ⟨t2, m2⟩ := tinv_storeAppointment s1 (l, usr)
            { loc := l, user := usr, blob := b, tsd := t, usig := u, start := s.mem.wHeight } h1 rfl hdu
          exact ⟨t2, by rw [m2]; exact htx, by rw [m2]; exact hre,
            a1.conf.sub (trkSub_of_eq _ _ (storeAppointment_spec s1 (l, usr) _).1)⟩

/-! ### one operation, whole histories -/

/-- the ghost chain after an operation -/
def chainStep (C : Chain) : Op → Chain
  | .connect b _ txs => C ++ [(b, blockData b txs)]
  | .disconnect _ _ => C.dropLast
  | _ => C

/-- what a valid history may do next: connect a new block (hash and transactions not in the active
chain) at the next height; disconnect the tip (no deeper than the index holds) at its height -/
def OpValidC (s : Tower) (C : Chain) (base : Nat) : Op → Prop
  | .connect b h txs => Valid s.mem.txIndex C (.conn b (blockData b txs)) ∧ h = base + C.length + 1 ∧
      Gen.CONFIRMATIONS_BEFORE_RETRY ≤ h
  | .disconnect b h => Valid s.mem.txIndex C (.disc b) ∧ h = base + C.length ∧
      (s.mem.txIndex.txIn b = none ∨ s.mem.txIndex.blocks.getLast? = some b)
  | _ => True

theorem not_in_blocks_of_valid {t : TxIndex TxId Nat} {C : Chain} {base : Nat} (inv : Inv t C base) (b : Nat)
    (hb : b ∉ C.map (·.1)) : b ∉ t.blocks := by
  obtain ⟨W, r, hs, _⟩ := inv
  intro hin
  rw [r.blocks] at hin
  obtain ⟨x, hx, e⟩ := List.mem_map.1 hin
  exact hb (List.mem_map.2 ⟨x, hs.subset hx, e⟩)

theorem cinv_connectBlock (cfg : Cfg) (s : Tower) (C : Chain) (base : Nat) (node : Node) (b height : Nat)
    (txs : List TxId) (h : CInv s C base) (hval : Valid s.mem.txIndex C (.conn b (blockData b txs)))
    (hheight : height = base + C.length + 1) (hh : Gen.CONFIRMATIONS_BEFORE_RETRY ≤ height) :
    CInv (connectBlock cfg s node b height txs).1 (C ++ [(b, blockData b txs)]) base ∧
    ∀ k t hc, (connectBlock cfg s node b height txs).1.db.trackers k = some t → t.status = .confirmedIn hc →
      ConfOk (C ++ [(b, blockData b txs)]) base t.penalty hc := by
  unfold connectBlock
  simp only
  obtain ⟨t1, x1⟩ := tinv_gkConnect cfg s height h.tinv
  have w1 : WOk s.mem.reorged C base (gkConnect cfg s height) :=
    ⟨t1, by rw [x1]; exact h.idx, h.conf.sub (trkSub_gkConnect cfg s height)⟩
  obtain ⟨w2, r2⟩ := wok_watcherConnect s.mem.reorged C base h.wf node (gkConnect cfg s height) b height txs w1
  have x2 := (tinv_watcherConnect (gkConnect cfg s height) node b height txs t1).2
  have hidx2 : (watcherConnect (gkConnect cfg s height) node b height txs).1.mem.txIndex = s.mem.txIndex := by
    rw [x2, x1]
  have hre2 : (watcherConnect (gkConnect cfg s height) node b height txs).1.mem.reorged = s.mem.reorged := by
    rw [r2, gkConnect_reorged]
  exact cinv_respConnect _ C base node b height txs w2.tinv w2.idx h.wf (by rw [hre2]; exact w2.conf)
    (by rw [hidx2]; exact hval) (by rw [hidx2]; exact not_in_blocks_of_valid h.idx b hval.1) hheight hh

theorem cinv_step (cfg : Cfg) (s : Tower) (C : Chain) (base : Nat) (node : Node) (op : Op) (h : CInv s C base)
    (hv : OpValidC s C base op) : CInv (step cfg s node op).1 (chainStep C op) base := by
  have ha : s.aborted.isSome = false := by rw [h.tinv.alive]; rfl
  cases op with
  | register u =>
    simp only [step, ha, Bool.false_eq_true, ↓reduceIte, chainStep]
    obtain ⟨f1, f2, f3⟩ := register_frame cfg s u
    exact ⟨tinv_register cfg s u h.tinv, by rw [f2]; exact h.idx, h.wf,
      by rw [f3]; exact h.conf.sub (trkSub_of_eq _ _ f1)⟩
  | add sg l b t u =>
    simp only [step, ha, Bool.false_eq_true, ↓reduceIte, chainStep]
    have a := aok_addAppointment C base s node sg l b t u h
    exact ⟨a.tinv, by rw [a.txi]; exact h.idx, h.wf, by rw [a.re]; exact a.conf⟩
  | get sg l => simp only [step, ha, Bool.false_eq_true, ↓reduceIte, chainStep]; exact h
  | sub sg => simp only [step, ha, Bool.false_eq_true, ↓reduceIte, chainStep]; exact h
  | connect b hgt txs =>
    simp only [step, ha, Bool.false_eq_true, ↓reduceIte, chainStep]
    exact (cinv_connectBlock cfg s C base node b hgt txs h hv.1 hv.2.1 hv.2.2).1
  | disconnect b hgt =>
    simp only [step, ha, Bool.false_eq_true, ↓reduceIte, chainStep]
    unfold disconnectBlock
    simp only
    have h2 : CInv (watcherDisconnect { s with mem := { s.mem with gkHeight := hgt - 1 } } b hgt) C base := by
      unfold watcherDisconnect
      exact ⟨⟨h.tinv.alive, h.tinv.db, h.tinv.dom, h.tinv.memo, h.tinv.txi⟩, h.idx, h.wf, h.conf⟩
    exact cinv_respDisconnect _ C base b hgt h2 hv.1 hv.2.1 hv.2.2

/-- a history with its ghost chain -/
def runC (cfg : Cfg) : Tower × Chain → List (Node × Op) → Tower × Chain
  | sc, [] => sc
  | (s, C), (node, op) :: rest => runC cfg ((step cfg s node op).1, chainStep C op) rest

def HistoryValidC (cfg : Cfg) (base : Nat) : Tower × Chain → List (Node × Op) → Prop
  | _, [] => True
  | (s, C), (node, op) :: rest => OpValidC s C base op ∧ HistoryValidC cfg base ((step cfg s node op).1, chainStep C op) rest

theorem cinv_history (cfg : Cfg) (base : Nat) : ∀ (hist : List (Node × Op)) (sc : Tower × Chain), CInv sc.1 sc.2 base →
    HistoryValidC cfg base sc hist → CInv (runC cfg sc hist).1 (runC cfg sc hist).2 base
  | [], _, h, _ => h
  | (node, op) :: rest, (s, C), h, hv => by
    unfold runC
    exact cinv_history cfg base rest _ (cinv_step cfg s C base node op h hv.1) hv.2

/-- the chain the bootstrap hands to the responder's index -/
def bootChain (blocks : List (Nat × List TxId)) : Chain := blocks.map fun b => (b.1, blockData b.1 b.2)

theorem map_fst_blockData (b : Nat) : ∀ (txs : List TxId), (blockData b txs).map (·.1) = txs
  | [] => rfl
  | t :: r => by
    have ih := map_fst_blockData b r
    unfold blockData at ih ⊢
    simp only [List.map_cons, ih]

theorem allKeys_bootChain : ∀ (blocks : List (Nat × List TxId)), allKeys (bootChain blocks) = blocks.flatMap (·.2)
  | [] => rfl
  | x :: r => by
    have ih := allKeys_bootChain r
    unfold allKeys bootChain at ih ⊢
    simp only [List.map_cons, List.flatMap_cons, map_fst_blockData, ih]

theorem cinv_boot (height : Nat) (blocks : List (Nat × List TxId)) (hpos : 0 < blocks.length)
    (hle : blocks.length ≤ height) (hnb : (blocks.map (·.1)).Nodup) (hnk : (blocks.flatMap (·.2)).Nodup) :
    CInv (boot Db.empty height blocks) (bootChain blocks) (height - blocks.length) := by
  have hnb' : ((bootChain blocks).map (·.1)).Nodup := by
    unfold bootChain; rw [List.map_map]; exact hnb
  have hnk' : (allKeys (bootChain blocks)).Nodup := by rw [allKeys_bootChain]; exact hnk
  have hinv := C19.inv_reachable (bootChain blocks) height (by unfold bootChain; simpa using hpos)
    (by unfold bootChain; simpa using hle) hnb' hnk' [] trivial
  simp only [C19.runT, C19.runC, List.foldl_nil] at hinv
  refine ⟨tinv_boot Db.empty height blocks DbInv.empty hnb, ?_, ?_, ?_⟩
  · unfold boot
    simp only
    have e : (bootChain blocks).length = blocks.length := by unfold bootChain; simp
    rw [e] at hinv
    exact hinv
  · intro blk hblk kv hkv
    unfold bootChain at hblk
    obtain ⟨x, _, rfl⟩ := List.mem_map.1 hblk
    simp only [blockData, List.mem_map] at hkv
    obtain ⟨t, _, rfl⟩ := hkv
    rfl
  · intro k t h hx _
    cases hx

end Teos
