import TeosVerif.Lemmas.TowerJust
import TeosVerif.Lemmas.TowerBreach
import TeosVerif.Lemmas.TowerInv

namespace Teos
open TxIndex

/-- the version of `k` accepted last, according to the chronological record of accepted submissions -/
def lastFor (k : Uuid) (l : List (Uuid × Blob)) : Option Blob :=
  ((l.filter fun e => e.1 = k).getLast?).map (·.2)

theorem lastFor_append_single (k k' : Uuid) (b : Blob) (l : List (Uuid × Blob)) :
    lastFor k (l ++ [(k', b)]) = if k' = k then some b else lastFor k l := by
  unfold lastFor
  rw [List.filter_append]
  by_cases e : k' = k
  · subst e
    simp
  · simp [e]

theorem storeTriggered_row (s : Tower) (node : Node) (k : Uuid) (a : Appt) (d : TxId) :
    ∀ a', (storeTriggeredAppointment s node k a d).1.db.appts k = some a' → a'.blob = a.blob := by
  intro a' h
  unfold storeTriggeredAppointment at h
  cases hdc : a.blob.decrypt d with
  | none =>
    simp only [hdc] at h
    unfold deleteAppointments at h
    simp only [Bool.false_eq_true, ↓reduceIte] at h
    rw [Db.removeAppts_appts] at h
    simp at h
  | some p =>
    simp only [hdc] at h
    obtain ⟨_, _, _, h4⟩ := storeAppointment_spec s k a
    obtain ⟨f1, _⟩ := handleBreach_answers (storeAppointment s k a) node k d p a.user
    split at h
    · dsimp only at h
      unfold deleteAppointments at h
      simp only [Bool.false_eq_true, ↓reduceIte] at h
      rw [Db.removeAppts_appts] at h
      simp at h
    · dsimp only at h
      rw [f1] at h
      exact h4 a' h

/-- after an accepted submission the row stored under its key, if any, carries the submitted blob -/
theorem add_row_is_new (s : Tower) (node : Node) (sg : Option User) (l : Loc) (b : Blob) (t w : Nat)
    (usr : User) (ui : UserInfo) (ha : authCheck s sg = .ok (usr, ui)) (st us av ex : Nat)
    (hacc : (addAppointment s node sg l b t w).2.1 = .accepted st us av ex) :
    ∀ a, (addAppointment s node sg l b t w).1.db.appts (l, usr) = some a → a.blob = b := by
  intro a h
  unfold addAppointment at h hacc
  rw [ha] at h hacc
  simp only at h hacc
  split at h
  · simp_all
  · rename_i ht
    simp only [ht, Bool.false_eq_true, ↓reduceIte] at hacc
    generalize addUpdateAppointment s usr (l, usr) b.len = r at h hacc
    obtain ⟨s1, o⟩ := r
    cases o with
    | none => simp at hacc
    | some avail =>
      simp only at h
      split at h
      · rename_i dd _
        exact storeTriggered_row s1 node (l, usr) _ dd a h
      · exact (storeAppointment_spec s1 (l, usr) _).2.2.2 a h

/-- every stored appointment carries the blob of the submission accepted last for its key -/
def ReadsBack (sg : Tower × Ghost) : Prop :=
  ∀ k a, sg.1.db.appts k = some a → lastFor k sg.2.accepted = some a.blob

theorem acceptedBy_cases (s : Tower) (node : Node) (op : Op) :
    acceptedBy s node op = [] ∨
    ∃ sg l blob t u usr ui st us av ex, op = .add sg l blob t u ∧ authCheck s sg = .ok (usr, ui) ∧
      (addAppointment s node sg l blob t u).2.1 = .accepted st us av ex ∧
      acceptedBy s node op = [((l, usr), blob)] := by
  cases op with
  | add sg l blob t u =>
    cases hauth : authCheck s sg with
    | error e => left; simp [acceptedBy, hauth]
    | ok pr =>
      obtain ⟨usr, ui⟩ := pr
      cases hacc : (addAppointment s node sg l blob t u).2.1 with
      | accepted st us av ex =>
        right
        exact ⟨sg, l, blob, t, u, usr, ui, st, us, av, ex, rfl, hauth, hacc, by simp [acceptedBy, hauth, hacc]⟩
      | _ => left; simp [acceptedBy, hauth, hacc]
  | register _ => left; rfl
  | get _ _ => left; rfl
  | sub _ => left; rfl
  | connect _ _ _ => left; rfl
  | disconnect _ _ => left; rfl

theorem readsBack_stepG (cfg : Cfg) (sg : Tower × Ghost) (x : Node × Op) (hg : GInv sg) (halive : sg.1.aborted = none)
    (h : ReadsBack sg) : ReadsBack (stepG cfg sg x) := by
  obtain ⟨s, g⟩ := sg
  obtain ⟨node, op⟩ := x
  simp only at halive
  have so := stepOk_step cfg s g.seen node op hg.just
  have ha : s.aborted.isSome = false := by rw [halive]; rfl
  intro k a hk
  simp only [stepG] at hk ⊢
  rcases acceptedBy_cases s node op with e | ⟨sgn, l, blob, t, u, usr, ui, st, us, av, ex, hop, hauth, hacc, e⟩
  · rw [e, List.append_nil]
    rcases so.held k a.blob ⟨a, hk, rfl⟩ with hh | hh
    · obtain ⟨a0, h0, hb⟩ := hh
      rw [← hb]; exact h k a0 h0
    · have := offered_acceptedBy s node op k a.blob hh
      rw [e] at this; cases this
  · rw [e, lastFor_append_single]
    subst hop
    simp only [step, ha, Bool.false_eq_true, ↓reduceIte] at hk
    by_cases ek : (l, usr) = k
    · subst ek
      simp only [↓reduceIte]
      rw [add_row_is_new s node sgn l blob t u usr ui hauth st us av ex hacc a hk]
    · simp only [ek, ↓reduceIte]
      rw [(frame_addAppointment s node sgn l blob t u usr ui hauth).appts k (fun e' => ek e'.symm)] at hk
      exact h k a hk

/-- **through every valid history** the stored version is the version accepted last -/
theorem readsBack_runG (cfg : Cfg) : ∀ (hist : List (Node × Op)) (sg : Tower × Ghost), GInv sg → TInv sg.1 →
    HistoryValid cfg sg.1 hist → ReadsBack sg → ReadsBack (runG cfg sg hist) := by
  intro hist
  induction hist with
  | nil => intro sg _ _ _ h; exact h
  | cons x rest ih =>
    intro sg hg hi hv h
    obtain ⟨node, op⟩ := x
    simp only [runG, List.foldl_cons]
    apply ih
    · exact ginv_stepG cfg sg (node, op) hg
    · exact tinv_step cfg sg.1 node op hi hv.1
    · exact hv.2
    · exact readsBack_stepG cfg sg (node, op) hg hi.alive h

end Teos
