/-
The user table in memory and the users table on disk are the same function after every
operation (values, not only domains): the balance kept in memory is the balance persisted.
Core Lean only; builds on `Lemmas/TowerInv.lean`.
-/
import TeosVerif.Lemmas.TowerInv

namespace Teos

/-! ### the refunding deletion -/

theorem setSlots_users (d : Db) (u : User) (n : Nat) (x : User) :
    (d.setSlots u n).users x = if x = u then (d.users u).map (fun i => { i with slots := n }) else d.users x := by
  unfold Db.setSlots
  cases hu : d.users u with
  | none =>
    simp only [Option.map_none]
    by_cases e : x = u
    · subst e; simp [hu]
    · simp [e]
  | some i =>
    simp only [Option.map_some]

theorem lookup_some_mem (x : User) : ∀ (l : List (User × Nat)) (v : Nat), l.lookup x = some v → x ∈ l.map (·.1)
  | [], v, h => by simp at h
  | (a, b) :: rest, v, h => by
    simp only [List.lookup] at h
    by_cases e : x = a
    · simp [e]
    · have e' : (x == a) = false := by simpa using e
      simp only [e'] at h
      simp [lookup_some_mem x rest v h]

theorem foldl_setSlots_users : ∀ (bal : List (User × Nat)) (d : Db) (x : User),
    (bal.map (·.1)).Nodup →
    (bal.foldl (fun d (b : User × Nat) => d.setSlots b.1 b.2) d).users x =
      match bal.lookup x with
      | some n => (d.users x).map (fun i => { i with slots := n })
      | none => d.users x := by
  intro bal
  induction bal with
  | nil => intro d x _; rfl
  | cons b bs ih =>
    intro d x hnd
    obtain ⟨bu, bn⟩ := b
    simp only [List.map_cons, List.nodup_cons] at hnd
    simp only [List.foldl_cons]
    rw [ih _ x hnd.2]
    simp only [List.lookup_cons]
    by_cases e : x = bu
    · subst e
      -- `x` does not occur again
      have hl : bs.lookup x = none := by
        cases h : bs.lookup x with
        | none => rfl
        | some v => exact absurd (lookup_some_mem x bs v h) hnd.1
      simp only [hl, beq_self_eq_true, setSlots_users, ↓reduceIte]
    · have e' : (x == bu) = false := by simpa using e
      simp only [e', setSlots_users, e, ↓reduceIte]

/-- the state of the refund loop: the database untouched; in memory only `slots` of the users
collected in `upd` may differ from the initial state -/
structure RefundLoop (s0 : Tower) (acc : Tower × List User) : Prop where
  db : acc.1.db = s0.db
  same : ∀ u, u ∉ acc.2 → acc.1.mem.users u = s0.mem.users u
  shape : ∀ u, (acc.1.mem.users u).map (fun i => (i.start, i.expiry)) = (s0.mem.users u).map (fun i => (i.start, i.expiry))
  nodup : acc.2.Nodup

theorem refundLoop_step (s0 : Tower) (acc : Tower × List User) (k : Uuid) (h : RefundLoop s0 acc) :
    RefundLoop s0 (refundStep acc k) := by
  obtain ⟨s, upd⟩ := acc
  unfold refundStep
  simp only
  cases ha : s.db.appts k with
  | none =>
    simp only
    exact ⟨by rw [abort_db]; exact h.db, fun u hu => by rw [abort_mem]; exact h.same u hu,
      fun u => by rw [abort_mem]; exact h.shape u, h.nodup⟩
  | some a =>
    simp only
    cases hu : s.mem.users a.user with
    | none =>
      simp only
      exact ⟨by rw [abort_db]; exact h.db, fun u hu => by rw [abort_mem]; exact h.same u hu,
        fun u => by rw [abort_mem]; exact h.shape u, h.nodup⟩
    | some ui =>
      simp only
      refine ⟨h.db, ?_, ?_, ?_⟩
      · intro u hnot
        rw [mem_addKey] at hnot
        have hne : u ≠ a.user := fun e => hnot (Or.inl e)
        simp only [hne, ↓reduceIte]
        exact h.same u (fun hm => hnot (Or.inr hm))
      · intro u
        by_cases e : u = a.user
        · subst e
          simp only [↓reduceIte, Option.map_some]
          have := h.shape a.user
          simp only at this
          rw [hu] at this
          simpa using this
        · simp only [e, ↓reduceIte]; exact h.shape u
      · unfold Db.addKey
        split
        · exact h.nodup
        · rename_i hnm
          exact List.nodup_append.mpr ⟨h.nodup, by simp, by
            intro x hx y hy
            simp only [List.mem_singleton] at hy
            subst hy
            intro e; subst e; exact hnm hx⟩

theorem refundLoop_foldl (s0 : Tower) : ∀ (ks : List Uuid) (acc : Tower × List User),
    RefundLoop s0 acc → RefundLoop s0 (ks.foldl refundStep acc) := by
  intro ks
  induction ks with
  | nil => intro acc h; exact h
  | cons k ks ih => intro acc h; exact ih _ (refundLoop_step s0 acc k h)

theorem userinfo_ext (a b : UserInfo) (h1 : a.slots = b.slots) (h2 : a.start = b.start)
    (h3 : a.expiry = b.expiry) : a = b := by
  cases a; cases b; simp_all

/-- after a refunding deletion memory and disk agree again on every user -/
theorem refund_users_eq (s : Tower) (ks : List Uuid) (heq : s.mem.users = s.db.users) :
    (deleteAppointments s ks true).mem.users = (deleteAppointments s ks true).db.users := by
  unfold deleteAppointments
  simp only [↓reduceIte]
  have hl := refundLoop_foldl s ks (s, []) ⟨rfl, fun _ _ => rfl, fun _ => rfl, List.nodup_nil⟩
  generalize ks.foldl refundStep (s, []) = r at hl
  obtain ⟨s1, upd⟩ := r
  simp only at hl ⊢
  funext u
  unfold Db.removeApptsRefund
  simp only
  -- the balances: one entry per collected user that is (still) in memory
  have hbal_nodup : ((upd.filterMap fun u => (s1.mem.users u).map fun ui => (u, ui.slots)).map (·.1)).Nodup := by
    have : ∀ (l : List User), l.Nodup →
        ((l.filterMap fun u => (s1.mem.users u).map fun ui => (u, ui.slots)).map (·.1)).Nodup ∧
        ∀ x, x ∈ (l.filterMap fun u => (s1.mem.users u).map fun ui => (u, ui.slots)).map (·.1) → x ∈ l := by
      intro l
      induction l with
      | nil => intro _; simp
      | cons a as ih =>
        intro hnd
        simp only [List.nodup_cons] at hnd
        obtain ⟨i1, i2⟩ := ih hnd.2
        cases hm : s1.mem.users a with
        | none =>
          simp only [List.filterMap_cons, hm, Option.map_none]
          exact ⟨i1, fun x hx => List.mem_cons_of_mem _ (i2 x hx)⟩
        | some ui =>
          simp only [List.filterMap_cons, hm, Option.map_some, List.map_cons, List.nodup_cons]
          refine ⟨⟨fun hx => hnd.1 (i2 a hx), i1⟩, ?_⟩
          intro x hx
          simp only [List.mem_cons] at hx ⊢
          rcases hx with rfl | hx
          · exact Or.inl rfl
          · exact Or.inr (i2 x hx)
    exact (this upd hl.nodup).1
  rw [foldl_setSlots_users _ _ u hbal_nodup]
  have hlook : (upd.filterMap fun u => (s1.mem.users u).map fun ui => (u, ui.slots)).lookup u =
      if u ∈ upd then (s1.mem.users u).map (·.slots) else none := by
    have : ∀ (l : List User), l.Nodup →
        (l.filterMap fun u => (s1.mem.users u).map fun ui => (u, ui.slots)).lookup u =
          if u ∈ l then (s1.mem.users u).map (·.slots) else none := by
      intro l
      induction l with
      | nil => intro _; simp
      | cons a as ih =>
        intro hnd
        simp only [List.nodup_cons] at hnd
        have ih' := ih hnd.2
        cases hm : s1.mem.users a with
        | none =>
          simp only [List.filterMap_cons, hm, Option.map_none, ih', List.mem_cons]
          by_cases e : u = a
          · subst e; simp [hm, hnd.1]
          · simp [e]
        | some ui =>
          simp only [List.filterMap_cons, hm, Option.map_some, List.lookup_cons, List.mem_cons]
          by_cases e : u = a
          · subst e; simp [hm]
          · have e' : (u == a) = false := by simpa using e
            simp only [e', ih', e, false_or]
    exact this upd hl.nodup
  rw [hlook]
  have hdb : (s1.db.dropAppts ks).users u = s.db.users u := by rw [hl.db]; rfl
  by_cases hin : u ∈ upd
  · simp only [hin, ↓reduceIte]
    cases hm : s1.mem.users u with
    | none =>
      simp only [Option.map_none]
      have := hl.shape u
      rw [hm] at this
      simp only [Option.map_none] at this
      rw [hdb, ← heq]
      cases h0 : s.mem.users u with
      | none => rfl
      | some i0 => rw [h0] at this; cases this
    | some i1 =>
      simp only [Option.map_some]
      rw [hdb, ← heq]
      have := hl.shape u
      rw [hm] at this
      cases h0 : s.mem.users u with
      | none => rw [h0] at this; cases this
      | some i0 =>
        rw [h0] at this
        simp only [Option.map_some, Option.some.injEq, Prod.mk.injEq] at this
        simp only [Option.map_some, Option.some.injEq]
        exact userinfo_ext _ _ rfl this.1 this.2
  · simp only [hin, ↓reduceIte]
    rw [hdb, ← heq]
    exact hl.same u hin

end Teos

namespace Teos

/-! ### every operation keeps memory = disk -/

def UsersEq (s : Tower) : Prop := s.mem.users = s.db.users

theorem breachStep_users (node : Node) (d : TxId) (acc : Tower × List Uuid × List Rpc) (k : Uuid) :
    (breachStep node d acc k).1.mem.users = acc.1.mem.users ∧
    (breachStep node d acc k).1.db.users = acc.1.db.users := by
  obtain ⟨s, inv, log⟩ := acc
  unfold breachStep
  simp only
  split
  · simp [abort_mem, abort_db]
  · rename_i a ha
    split
    · rename_i p hp
      have := handleBreach_users s node k d p a.user
      split <;> exact this
    · exact ⟨rfl, rfl⟩

theorem handleBreaches_users (s : Tower) (node : Node) (disputes : List TxId) :
    (handleBreaches s node disputes).1.mem.users = s.mem.users ∧
    (handleBreaches s node disputes).1.db.users = s.db.users := by
  unfold handleBreaches
  apply foldl_preserves (fun (acc : Tower × List Uuid × List Rpc) => acc.1.mem.users = s.mem.users ∧ acc.1.db.users = s.db.users)
  · intro acc d h
    unfold disputeStep
    apply foldl_preserves (fun (a : Tower × List Uuid × List Rpc) => a.1.mem.users = s.mem.users ∧ a.1.db.users = s.db.users)
    · intro a k ha
      have := breachStep_users node d a k
      exact ⟨this.1.trans ha.1, this.2.trans ha.2⟩
    · exact h
  · exact ⟨rfl, rfl⟩

theorem usersEq_watcherConnect (s : Tower) (node : Node) (b height : Nat) (txs : List TxId) (h : UsersEq s) :
    UsersEq (watcherConnect s node b height txs).1 := by
  unfold watcherConnect UsersEq
  simp only
  generalize (txs.filter _) = disputes
  have h2 := handleBreaches_users { s with mem := { s.mem with cache := s.mem.cache.update b (txs.map fun t => (locOf t, t)) } } node disputes
  generalize handleBreaches _ node disputes = r at *
  obtain ⟨s2, invalid, log⟩ := r
  simp only at h2 ⊢
  split
  · rw [h2.1, h2.2]; exact h
  · have := deleteAppointments_norefund_users s2 invalid
    rw [this.1, this.2, h2.1, h2.2]; exact h

theorem usersEq_gkConnect (cfg : Cfg) (s : Tower) (height : Nat) (h : UsersEq s) :
    UsersEq (gkConnect cfg s height) := by
  unfold gkConnect UsersEq
  simp only
  split
  · exact h
  · funext u
    simp only [Db.removeUsers]
    split
    · rfl
    · exact congrFun h u

theorem usersEq_respConnect (s : Tower) (node : Node) (b height : Nat) (txs : List TxId) (h : UsersEq s) :
    UsersEq (respConnect s node b height txs).1 := by
  unfold respConnect UsersEq
  simp only
  have h1 : (respPrepare s b height txs).mem.users = (respPrepare s b height txs).db.users := h
  have c2 := checkConfirmations_users (respPrepare s b height txs) txs height
  generalize checkConfirmations (respPrepare s b height txs) txs height = cc at *
  obtain ⟨s2, completed⟩ := cc
  simp only at c2 ⊢
  have h2 : s2.mem.users = s2.db.users := by rw [c2.1, c2.2]; exact h1
  have h3 : (if completed.isEmpty = true then s2 else deleteAppointments s2 completed true).mem.users =
      (if completed.isEmpty = true then s2 else deleteAppointments s2 completed true).db.users := by
    split
    · exact h2
    · exact refund_users_eq s2 completed h2
  generalize (if completed.isEmpty = true then s2 else deleteAppointments s2 completed true) = s3 at *
  have h4 : (if s3.mem.reorged.isEmpty = true then (s3, ([] : List Uuid), ([] : List Rpc)) else handleReorgedTxs s3 node height).1.mem.users =
      (if s3.mem.reorged.isEmpty = true then (s3, ([] : List Uuid), ([] : List Rpc)) else handleReorgedTxs s3 node height).1.db.users := by
    split
    · exact h3
    · have := handleReorgedTxs_users s3 node height
      rw [this.1, this.2]; exact h3
  generalize (if s3.mem.reorged.isEmpty = true then (s3, ([] : List Uuid), ([] : List Rpc)) else handleReorgedTxs s3 node height) = r4 at *
  obtain ⟨s4, rej1, log1⟩ := r4
  simp only at h4 ⊢
  have c5 := rebroadcastStaleTxs_users s4 node height
  generalize rebroadcastStaleTxs s4 node height = r5 at *
  obtain ⟨s5, rej2, log2⟩ := r5
  simp only at c5 ⊢
  have h5 : s5.mem.users = s5.db.users := by rw [c5.1, c5.2]; exact h4
  split
  · exact h5
  · have := deleteAppointments_norefund_users s5 (rej1 ++ rej2)
    rw [this.1, this.2]; exact h5

theorem usersEq_addUpdateUser (cfg : Cfg) (s : Tower) (u : User) (h : UsersEq s) :
    UsersEq (addUpdateUser cfg s u).1 := by
  unfold addUpdateUser UsersEq
  cases hu : s.mem.users u with
  | some ui =>
    simp only
    split
    · exact h
    · funext x
      simp only
      have hdb : s.db.users u = some ui := by rw [← congrFun h u]; exact hu
      unfold Db.updateUser
      simp only [hdb]
      by_cases e : x = u
      · simp [e]
      · simp only [e, ↓reduceIte]; exact congrFun h x
  | none =>
    simp only
    have hdb : s.db.users u = none := by rw [← congrFun h u]; exact hu
    unfold Db.storeUser
    simp only [hdb]
    funext x
    by_cases e : x = u
    · simp [e]
    · simp only [e, ↓reduceIte]; exact congrFun h x

theorem usersEq_addUpdateAppointment (s : Tower) (u : User) (k : Uuid) (len : Nat) (h : UsersEq s) :
    UsersEq (addUpdateAppointment s u k len).1 := by
  unfold addUpdateAppointment UsersEq
  cases hu : s.mem.users u with
  | none => simp only [abort_mem, abort_db]; exact h
  | some ui =>
    simp only
    split
    · funext x
      simp only
      have hdb : s.db.users u = some ui := by rw [← congrFun h u]; exact hu
      unfold Db.updateUser
      simp only [hdb]
      by_cases e : x = u
      · simp [e]
      · simp only [e, ↓reduceIte]; exact congrFun h x
    · exact h

theorem usersEq_addAppointment (s : Tower) (node : Node) (sg : Option User) (l : Loc) (b : Blob) (t u : Nat)
    (h : UsersEq s) : UsersEq (addAppointment s node sg l b t u).1 := by
  unfold addAppointment
  cases ha : authCheck s sg with
  | error e => exact h
  | ok p =>
    obtain ⟨usr, ui⟩ := p
    simp only
    split
    · exact h
    · have h1 := usersEq_addUpdateAppointment s usr (l, usr) b.len h
      generalize addUpdateAppointment s usr (l, usr) b.len = r at *
      obtain ⟨s1, av⟩ := r
      simp only at h1 ⊢
      cases av with
      | none => exact h1
      | some avail =>
        simp only
        unfold UsersEq at h1 ⊢
        split
        · rename_i dispute hd
          have := storeTriggered_users s1 node (l, usr) { loc := l, user := usr, blob := b, tsd := t, usig := u, start := s.mem.wHeight } dispute
          rw [this.1, this.2]; exact h1
        · have := storeAppointment_users s1 (l, usr) { loc := l, user := usr, blob := b, tsd := t, usig := u, start := s.mem.wHeight }
          rw [this.1, this.2]; exact h1

/-- **memory = disk after every operation** -/
theorem usersEq_step (cfg : Cfg) (s : Tower) (node : Node) (op : Op) (h : UsersEq s) :
    UsersEq (step cfg s node op).1 := by
  cases op with
  | register u =>
    simp only [step]
    split
    · exact h
    · unfold register
      have := usersEq_addUpdateUser cfg s u h
      split <;> (rename_i heq; rw [heq] at this; exact this)
  | add sg l b t u =>
    simp only [step]
    split
    · exact h
    · exact usersEq_addAppointment s node sg l b t u h
  | get sg l => simp only [step]; split <;> exact h
  | sub sg => simp only [step]; split <;> exact h
  | connect b hgt txs =>
    simp only [step]
    split
    · exact h
    · unfold connectBlock
      simp only
      exact usersEq_respConnect _ node b hgt txs (usersEq_watcherConnect _ node b hgt txs (usersEq_gkConnect cfg s hgt h))
  | disconnect b hgt =>
    simp only [step]
    split
    · exact h
    · exact h

theorem usersEq_history (cfg : Cfg) : ∀ (hist : List (Node × Op)) (s : Tower), UsersEq s →
    UsersEq (runHistory cfg s hist) := by
  intro hist
  induction hist with
  | nil => intro s h; exact h
  | cons x rest ih =>
    intro s h
    obtain ⟨node, op⟩ := x
    exact ih _ (usersEq_step cfg s node op h)

end Teos
