/- The protocol model's invariant "a thread parked in the carrier's wait implies the flag is down" (C12). -/
import TeosVerif.Model.Outage

namespace Teos.Outage

/-- a thread parked in the carrier's wait means the outage has been noticed: the flag is down -/
def Noticed (s : St) : Prop := (s.api = .wait → s.flag = false) ∧ (s.chain = .wait → s.flag = false)

theorem rpcAttempt_frame (s : St) : (rpcAttempt s).1.flag = s.flag ∧ (rpcAttempt s).1.api = s.api ∧
    (rpcAttempt s).1.chain = s.chain := by
  unfold rpcAttempt
  split <;> (simp only; split <;> simp)

/-- working through RPCs never touches the thread states and never raises the flag -/
theorem runRpcs_frame : ∀ (fuel : Nat) (s : St) (rem : Nat),
    (runRpcs s rem fuel).1.api = s.api ∧ (runRpcs s rem fuel).1.chain = s.chain ∧
    (s.flag = false → (runRpcs s rem fuel).1.flag = false) := by
  intro fuel
  induction fuel with
  | zero => intro s rem; simp [runRpcs]
  | succ n ih =>
    intro s rem
    cases rem with
    | zero => simp [runRpcs]
    | succ r =>
      simp only [runRpcs]
      by_cases hf : s.flag = true
      · simp only [hf, Bool.not_true, Bool.false_eq_true, ↓reduceIte]
        obtain ⟨f1, f2, f3⟩ := rpcAttempt_frame s
        generalize rpcAttempt s = ra at *
        obtain ⟨s1, ok⟩ := ra
        simp only at f1 f2 f3 ⊢
        cases ok with
        | true =>
          simp only [↓reduceIte]
          split
          · obtain ⟨g1, g2, g3⟩ := ih { s1 with sends := s1.sends + 1, trackers := s1.trackers + 1 } r
            exact ⟨g1.trans f2, g2.trans f3, fun h => absurd h (by decide)⟩
          · obtain ⟨g1, g2, g3⟩ := ih s1 r
            exact ⟨g1.trans f2, g2.trans f3, fun h => absurd h (by decide)⟩
        | false =>
          simp only [Bool.false_eq_true, ↓reduceIte]
          obtain ⟨g1, g2, g3⟩ := ih { s1 with flag := false } (r + 1)
          exact ⟨g1.trans f2, g2.trans f3, fun h => absurd h (by decide)⟩
      · have hf' : s.flag = false := by cases h : s.flag <;> simp_all
        simp [hf']

/-- with enough fuel for the RPCs left, the thread ends waiting only with the flag down -/
theorem runRpcs_waits_flagged : ∀ (fuel : Nat) (s : St) (rem : Nat), rem < fuel →
    (runRpcs s rem fuel).2.2 = true → (runRpcs s rem fuel).1.flag = false := by
  intro fuel
  induction fuel with
  | zero => intro s rem h; cases h
  | succ n ih =>
    intro s rem hlt
    cases rem with
    | zero => simp [runRpcs]
    | succ r =>
      simp only [runRpcs]
      by_cases hf : s.flag = true
      · simp only [hf, Bool.not_true, Bool.false_eq_true, ↓reduceIte]
        generalize rpcAttempt s = ra
        obtain ⟨s1, ok⟩ := ra
        cases ok with
        | true =>
          simp only [↓reduceIte]
          split
          · exact ih _ r (by omega)
          · exact ih _ r (by omega)
        | false =>
          simp only [Bool.false_eq_true, ↓reduceIte]
          intro _
          exact (runRpcs_frame n { s1 with flag := false } (r + 1)).2.2 rfl
      · have hf' : s.flag = false := by cases h : s.flag <;> simp_all
        simp [hf']

theorem runRpcs_rem_le : ∀ (fuel : Nat) (s : St) (rem : Nat), (runRpcs s rem fuel).2.1 ≤ rem := by
  intro fuel
  induction fuel with
  | zero => intro s rem; simp [runRpcs]
  | succ n ih =>
    intro s rem
    cases rem with
    | zero => simp [runRpcs]
    | succ r =>
      simp only [runRpcs]
      split
      · exact Nat.le_refl _
      · generalize rpcAttempt s = ra
        obtain ⟨s1, ok⟩ := ra
        cases ok with
        | true =>
          simp only [↓reduceIte]
          split
          · exact Nat.le_trans (ih _ r) (Nat.le_succ r)
          · exact Nat.le_trans (ih _ r) (Nat.le_succ r)
        | false =>
          simp only [Bool.false_eq_true, ↓reduceIte]
          exact ih _ (r + 1)

theorem rpcAttempt_apiRem (s : St) : (rpcAttempt s).1.apiRem = s.apiRem := by
  unfold rpcAttempt
  split <;> (simp only; split <;> simp)

theorem runRpcs_apiRem : ∀ (fuel : Nat) (s : St) (rem : Nat), (runRpcs s rem fuel).1.apiRem = s.apiRem := by
  intro fuel
  induction fuel with
  | zero => intro s rem; simp [runRpcs]
  | succ n ih =>
    intro s rem
    cases rem with
    | zero => simp [runRpcs]
    | succ r =>
      simp only [runRpcs]
      split
      · rfl
      · have f := rpcAttempt_apiRem s
        generalize rpcAttempt s = ra at *
        obtain ⟨s1, ok⟩ := ra
        simp only at f
        cases ok with
        | true =>
          simp only [↓reduceIte]
          split
          · rw [ih]; exact f
          · rw [ih]; exact f
        | false =>
          simp only [Bool.false_eq_true, ↓reduceIte]
          rw [ih]; exact f

theorem deliver_apiRem : ∀ (fuel : Nat) (s : St) (i : Nat), (deliver s fuel i).apiRem = s.apiRem := by
  intro fuel
  induction fuel with
  | zero => intro s i; rfl
  | succ n ih =>
    intro s i
    unfold deliver
    cases hp : s.pending with
    | nil => rfl
    | cons d rest =>
      simp only
      split
      · rfl
      · split
        · rfl
        · split
          · have f := runRpcs_apiRem 8 { s with pending := rest } 2
            generalize runRpcs { s with pending := rest } 2 8 = rr at *
            obtain ⟨s1, rem, waiting⟩ := rr
            simp only at f ⊢
            cases waiting with
            | true => simp only [↓reduceIte]; exact f
            | false => simp only [Bool.false_eq_true, ↓reduceIte]; rw [ih]; exact f
          · rw [ih]

def wake (s : St) : St := { s with flag := true, api := if s.api = .wait then .run else s.api }

/-- delivering blocks from a chain thread that is not itself parked keeps the invariant -/
theorem deliver_noticed : ∀ (fuel : Nat) (s : St) (i : Nat), s.chain ≠ .wait → Noticed s → Noticed (deliver s fuel i) := by
  intro fuel
  induction fuel with
  | zero => intro s i _ h; exact h
  | succ n ih =>
    intro s i hc h
    unfold deliver
    cases hp : s.pending with
    | nil =>
      simp only
      refine ⟨fun ha => ?_, fun hw => absurd hw hc⟩
      simp only at ha
      split at ha <;> simp_all
    | cons d rest =>
      simp only
      split
      · refine ⟨fun ha => ?_, fun hw => absurd hw hc⟩
        simp only at ha
        split at ha <;> simp_all
      · split
        · exact ⟨h.1, fun hw => by cases hw⟩
        · rename_i hcache
          have hapi : s.api ≠ .wait := by
            intro e
            apply hcache
            unfold apiHoldsCache
            simp [e]
          split
          · obtain ⟨f1, f2, _⟩ := runRpcs_frame 8 { s with pending := rest } 2
            have fw := runRpcs_waits_flagged 8 { s with pending := rest } 2 (by decide)
            generalize runRpcs { s with pending := rest } 2 8 = rr at *
            obtain ⟨s1, rem, waiting⟩ := rr
            simp only at f1 f2 fw ⊢
            cases waiting with
            | true =>
              simp only [↓reduceIte]
              exact ⟨fun ha => fw rfl, fun _ => fw rfl⟩
            | false =>
              simp only [Bool.false_eq_true, ↓reduceIte]
              apply ih
              · rw [f2]; exact hc
              · exact ⟨fun ha => absurd (f1 ▸ ha) hapi, fun hw => absurd (f2 ▸ hw) hc⟩
          · apply ih
            · exact hc
            · exact ⟨h.1, h.2⟩

/-- the invariant together with a bound that keeps the fuel of `runRpcs` sufficient -/
def NoticedB (s : St) : Prop := Noticed s ∧ s.apiRem ≤ 2

theorem noticedB_step (s : St) (a : Act) (h : NoticedB s) : NoticedB (step s a) := by
  obtain ⟨⟨h1, h2⟩, hb⟩ := h
  cases a with
  | nodeDown => exact ⟨⟨h1, h2⟩, hb⟩
  | nodeUp => exact ⟨⟨h1, h2⟩, hb⟩
  | rpcDownAfter i => exact ⟨⟨h1, h2⟩, hb⟩
  | mine d => exact ⟨⟨h1, h2⟩, hb⟩
  | failBlock i => exact ⟨⟨h1, h2⟩, hb⟩
  | probe => exact ⟨⟨h1, h2⟩, hb⟩
  | nodeBehind => exact ⟨⟨h1, h2⟩, hb⟩
  | apiStart => exact ⟨⟨fun ha => by simp [step] at ha, h2⟩, Nat.le_refl 2⟩
  | apiRun =>
    simp only [step]
    split
    · obtain ⟨f1, f2, f3⟩ := runRpcs_frame 8 s s.apiRem
      have fw := runRpcs_waits_flagged 8 s s.apiRem (by omega)
      have fr := runRpcs_rem_le 8 s s.apiRem
      generalize runRpcs s s.apiRem 8 = rr at *
      obtain ⟨s1, rem, waiting⟩ := rr
      simp only at f1 f2 f3 fw fr ⊢
      cases waiting with
      | true =>
        simp only [↓reduceIte]
        exact ⟨⟨fun _ => fw rfl, fun _ => fw rfl⟩, by simp only; omega⟩
      | false =>
        simp only [Bool.false_eq_true, ↓reduceIte]
        exact ⟨⟨fun ha => by simp at ha, fun hw => f3 (h2 (by simpa [f2] using hw))⟩, by simp⟩
    · exact ⟨⟨h1, h2⟩, hb⟩
  | poll =>
    simp only [step]
    split
    · exact ⟨⟨h1, h2⟩, hb⟩
    · split
      · exact ⟨⟨h1, h2⟩, hb⟩
      · refine ⟨deliver_noticed 16 { s with chain := .idle } 0 (by simp) ⟨h1, fun hw => by cases hw⟩, ?_⟩
        rw [deliver_apiRem]; exact hb
    · split
      · exact ⟨⟨fun _ => rfl, fun _ => rfl⟩, hb⟩
      · rename_i hidle _
        refine ⟨deliver_noticed 16 s 0 (by rw [hidle]; simp) ⟨h1, h2⟩, ?_⟩
        rw [deliver_apiRem]; exact hb

/-- delivering blocks none of which carries a dispute (no RPC is needed), with no API thread inside its
critical section, ends with the flag up — whether the list is exhausted or a download fails on the way -/
theorem deliver_quiet_raises_flag : ∀ (fuel : Nat) (s : St) (i : Nat),
    (∀ d ∈ s.pending, d = false) → apiHoldsCache s = false → s.pending.length < fuel →
    (deliver s fuel i).flag = true := by
  intro fuel
  induction fuel with
  | zero => intro s i _ _ h; omega
  | succ n ih =>
    intro s i hq ha hl
    unfold deliver
    cases hp : s.pending with
    | nil => simp
    | cons d rest =>
      simp only
      by_cases hf : s.failAt = some i
      · simp [hf]
      · have hd : d = false := hq d (by simp [hp])
        simp only [hf, if_false, ha, hd, Bool.false_eq_true]
        apply ih
        · intro d' hd'; exact hq d' (by simp [hp, hd'])
        · simpa [apiHoldsCache] using ha
        · simp [hp] at hl ⊢; omega

end Teos.Outage
