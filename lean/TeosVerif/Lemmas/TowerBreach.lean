/-
Lemmas for C01 at the level of a whole block: the two nested loops of `Watcher::handle_breaches`
visit every held appointment whose locator matches a transaction of the block, and for each one that
decrypts, the node is consulted about / given the penalty before the block is finished.
No hypothesis about aborts: a loop that aborted has still asked.  Core Lean only.
-/
import TeosVerif.Lemmas.Tower
import TeosVerif.Lemmas.TowerJust

namespace Teos

/-- within RPC log `L` (and given what `s0` already knew), the penalty `p` has been dealt with: it is in
the 100-block index, or the node was asked about it and it is in the mempool / was submitted / had been
submitted since the last block -/
def Answered (s0 : Tower) (node : Node) (L : List Rpc) (p : TxId) : Prop :=
  (s0.mem.txIndex.get p).isSome ∨
  (Rpc.get p ∈ L ∧ (carrierInMempool node p = true ∨ Rpc.send p ∈ L ∨ (s0.mem.receipts p).isSome))

theorem Answered.mono {s0 : Tower} {node : Node} {L L' : List Rpc} {p : TxId} (h : Answered s0 node L p)
    (hl : ∀ r, r ∈ L → r ∈ L') : Answered s0 node L' p := by
  rcases h with h | ⟨h1, h2⟩
  · exact Or.inl h
  · refine Or.inr ⟨hl _ h1, ?_⟩
    rcases h2 with h2 | h2 | h2
    · exact Or.inl h2
    · exact Or.inr (Or.inl (hl _ h2))
    · exact Or.inr (Or.inr h2)

/-- what the loops keep fixed, relative to the state `s0` the block handler started from -/
structure Fixed (s0 : Tower) (acc : Tower × List Uuid × List Rpc) : Prop where
  appts : acc.1.db.appts = s0.db.appts
  keys : acc.1.db.apptKeys = s0.db.apptKeys
  txi : acc.1.mem.txIndex = s0.mem.txIndex
  memo : ∀ x, (acc.1.mem.receipts x).isSome = true → (s0.mem.receipts x).isSome = true ∨ Rpc.send x ∈ acc.2.2

theorem addTracker_frame (s : Tower) (k : Uuid) (t : Tracker) :
    (addTracker s k t).db.appts = s.db.appts ∧ (addTracker s k t).db.apptKeys = s.db.apptKeys ∧
    (addTracker s k t).mem = s.mem := by
  unfold addTracker
  split
  · rename_i db' h
    unfold Db.storeTracker at h
    split at h
    · cases h
    · split at h
      · simp only [Option.some.injEq] at h; subst h; exact ⟨rfl, rfl, rfl⟩
      · cases h
  · exact ⟨rfl, rfl, rfl⟩

/-- `handle_breach`, unconditionally: tables and index untouched, memo grows only by what is submitted,
and the penalty has been dealt with -/
theorem handleBreach_answers (s : Tower) (node : Node) (k : Uuid) (d p : TxId) (u : User) :
    (handleBreach s node k d p u).1.db.appts = s.db.appts ∧
    (handleBreach s node k d p u).1.db.apptKeys = s.db.apptKeys ∧
    (handleBreach s node k d p u).1.mem.txIndex = s.mem.txIndex ∧
    (∀ x, ((handleBreach s node k d p u).1.mem.receipts x).isSome = true →
        (s.mem.receipts x).isSome = true ∨ Rpc.send x ∈ (handleBreach s node k d p u).2.2) ∧
    Answered s node (handleBreach s node k d p u).2.2 p := by
  unfold handleBreach Answered
  cases hi : s.mem.txIndex.get p with
  | some b =>
    simp only
    split
    · exact ⟨by rw [abort_db], by rw [abort_db], by rw [abort_mem], fun x h => Or.inl (by rw [abort_mem] at h; exact h),
        Or.inl rfl⟩
    · obtain ⟨f1, f2, f3⟩ := addTracker_frame s k
        { dispute := d, penalty := p, status := .confirmedIn ‹Nat›, user := u }
      exact ⟨f1, f2, by rw [f3], fun x h => Or.inl (by rw [f3] at h; exact h), Or.inl rfl⟩
  | none =>
    simp only
    by_cases hm : carrierInMempool node p = true
    · simp only [hm, ↓reduceIte]
      obtain ⟨f1, f2, f3⟩ := addTracker_frame s k
        { dispute := d, penalty := p, status := .inMempoolSince s.mem.cHeight, user := u }
      exact ⟨f1, f2, by rw [f3], fun x h => Or.inl (by rw [f3] at h; exact h),
        Or.inr ⟨by simp, Or.inl trivial⟩⟩
    · simp only [hm, Bool.false_eq_true, ↓reduceIte]
      have hsend : (s.mem.receipts p).isSome = true ∨ Rpc.send p ∈ (carrierSend s.mem node p).2.2 := by
        unfold carrierSend
        cases hr : s.mem.receipts p with
        | some r => exact Or.inl rfl
        | none => exact Or.inr (by simp)
      have hmemo : ∀ x, ((carrierSend s.mem node p).1.receipts x).isSome = true →
          (s.mem.receipts x).isSome = true ∨ Rpc.send x ∈ (Rpc.get p :: (carrierSend s.mem node p).2.2) := by
        intro x hx
        unfold carrierSend at hx ⊢
        cases hr : s.mem.receipts p with
        | some r => simp only [hr] at hx; exact Or.inl hx
        | none =>
          simp only [hr] at hx ⊢
          by_cases e : x = p
          · subst e; exact Or.inr (by simp)
          · simp only [e, ↓reduceIte] at hx; exact Or.inl hx
      have htxi : (carrierSend s.mem node p).1.txIndex = s.mem.txIndex := by
        unfold carrierSend; split <;> rfl
      have hans : False ∨ (Rpc.get p ∈ (Rpc.get p :: (carrierSend s.mem node p).2.2) ∧
          (False ∨ Rpc.send p ∈ (Rpc.get p :: (carrierSend s.mem node p).2.2) ∨ (s.mem.receipts p).isSome = true)) := by
        refine Or.inr ⟨by simp, Or.inr ?_⟩
        rcases hsend with h | h
        · exact Or.inr h
        · exact Or.inl (List.mem_cons_of_mem _ h)
      split
      · obtain ⟨f1, f2, f3⟩ := addTracker_frame { s with mem := (carrierSend s.mem node p).1 } k
          { dispute := d, penalty := p, status := (carrierSend s.mem node p).2.1, user := u }
        refine ⟨f1, f2, by rw [f3]; exact htxi, fun x h => hmemo x (by rw [f3] at h; exact h), ?_⟩
        simpa [hm] using hans
      · refine ⟨rfl, rfl, htxi, hmemo, ?_⟩
        simpa [hm] using hans

theorem breachStep_log_mono (node : Node) (d : TxId) (acc : Tower × List Uuid × List Rpc) (k : Uuid) (r : Rpc)
    (h : r ∈ acc.2.2) : r ∈ (breachStep node d acc k).2.2 := by
  obtain ⟨s, inv, log⟩ := acc
  unfold breachStep
  simp only at h ⊢
  split
  · exact h
  · split
    · split <;> exact List.mem_append.2 (Or.inl h)
    · exact h

theorem fixed_breachStep (s0 : Tower) (node : Node) (d : TxId) (acc : Tower × List Uuid × List Rpc) (k : Uuid)
    (h : Fixed s0 acc) : Fixed s0 (breachStep node d acc k) := by
  obtain ⟨s, inv, log⟩ := acc
  obtain ⟨h1, h2, h3, h4⟩ := h
  simp only at h1 h2 h3 h4
  unfold breachStep
  simp only
  split
  · exact ⟨by rw [abort_db]; exact h1, by rw [abort_db]; exact h2, by rw [abort_mem]; exact h3,
      fun x hx => by rw [abort_mem] at hx; exact h4 x hx⟩
  · rename_i a ha
    split
    · rename_i p hp
      obtain ⟨f1, f2, f3, f4, _⟩ := handleBreach_answers s node k d p a.user
      have fx : Fixed s0 ((handleBreach s node k d p a.user).1, inv, log ++ (handleBreach s node k d p a.user).2.2) := by
        refine ⟨f1.trans h1, f2.trans h2, f3.trans h3, ?_⟩
        intro x hx
        rcases f4 x hx with g | g
        · rcases h4 x g with g' | g'
          · exact Or.inl g'
          · exact Or.inr (List.mem_append.2 (Or.inl g'))
        · exact Or.inr (List.mem_append.2 (Or.inr g))
      split
      · exact ⟨fx.appts, fx.keys, fx.txi, fx.memo⟩
      · exact fx
    · exact ⟨h1, h2, h3, h4⟩

/-- the step for appointment `k`, when its row exists and decrypts: the penalty has been dealt with -/
theorem breachStep_hits (s0 : Tower) (node : Node) (d p : TxId) (acc : Tower × List Uuid × List Rpc) (k : Uuid)
    (a : Appt) (h : Fixed s0 acc) (ha : s0.db.appts k = some a) (hd : a.blob.decrypt d = some p) :
    Answered s0 node (breachStep node d acc k).2.2 p := by
  obtain ⟨s, inv, log⟩ := acc
  obtain ⟨h1, h2, h3, h4⟩ := h
  simp only at h1 h2 h3 h4
  have ha' : s.db.appts k = some a := by rw [h1]; exact ha
  unfold breachStep
  simp only [ha', hd]
  obtain ⟨_, _, _, _, ans⟩ := handleBreach_answers s node k d p a.user
  have : Answered s0 node (log ++ (handleBreach s node k d p a.user).2.2) p := by
    rcases ans with g | ⟨g1, g2⟩
    · exact Or.inl (by rw [← h3]; exact g)
    · refine Or.inr ⟨List.mem_append.2 (Or.inr g1), ?_⟩
      rcases g2 with g2 | g2 | g2
      · exact Or.inl g2
      · exact Or.inr (Or.inl (List.mem_append.2 (Or.inr g2)))
      · rcases h4 p g2 with g3 | g3
        · exact Or.inr (Or.inr g3)
        · exact Or.inr (Or.inl (List.mem_append.2 (Or.inl g3)))
  split <;> exact this

/-- a loop that keeps `R`, keeps `Q` once established, and establishes `Q` at element `x` -/
theorem foldl_hits {α β : Type} (R Q : β → Prop) (f : β → α → β)
    (hR : ∀ acc y, R acc → R (f acc y)) (hQ : ∀ acc y, R acc → Q acc → Q (f acc y)) :
    ∀ (l : List α) (x : α), x ∈ l → (∀ acc, R acc → Q (f acc x)) → ∀ init, R init → Q (l.foldl f init) := by
  have keep : ∀ (l : List α) (init : β), R init → Q init → Q (l.foldl f init) := by
    intro l
    induction l with
    | nil => intro _ _ h; exact h
    | cons y r ih => intro init hr hq; exact ih _ (hR init y hr) (hQ init y hr hq)
  intro l
  induction l with
  | nil => intro x hx; cases hx
  | cons y r ih =>
    intro x hx hit init hr
    simp only [List.foldl_cons]
    rcases List.mem_cons.1 hx with e | hx'
    · subst e
      exact keep r _ (hR init x hr) (hit init hr)
    · exact ih x hx' hit _ (hR init y hr)

theorem foldl_keeps {α β : Type} (R : β → Prop) (f : β → α → β) (hR : ∀ acc y, R acc → R (f acc y)) :
    ∀ (l : List α) (init : β), R init → R (l.foldl f init)
  | [], _, h => h
  | y :: r, init, h => foldl_keeps R f hR r _ (hR init y h)

theorem fixed_disputeStep (s0 : Tower) (node : Node) (acc : Tower × List Uuid × List Rpc) (d : TxId)
    (h : Fixed s0 acc) : Fixed s0 (disputeStep node acc d) := by
  unfold disputeStep
  exact foldl_keeps (Fixed s0) (breachStep node d) (fun a k ha => fixed_breachStep s0 node d a k ha) _ acc h

theorem disputeStep_log_mono (node : Node) (acc : Tower × List Uuid × List Rpc) (d : TxId) (r : Rpc)
    (h : r ∈ acc.2.2) : r ∈ (disputeStep node acc d).2.2 := by
  unfold disputeStep
  exact foldl_keeps (fun a => r ∈ a.2.2) (breachStep node d) (fun a k ha => breachStep_log_mono node d a k r ha) _ acc h

theorem mem_uuidsWithLoc_iff (db : Db) (l : Loc) (k : Uuid) :
    k ∈ db.uuidsWithLoc l ↔ (k ∈ db.apptKeys ∧ (db.appts k).isSome = true ∧ k.1 = l) := by
  unfold Db.uuidsWithLoc Db.liveAppts
  simp only [List.mem_filter, decide_eq_true_eq]
  constructor
  · rintro ⟨⟨h1, h2⟩, h3⟩; exact ⟨h1, h2, h3⟩
  · rintro ⟨h1, h2, h3⟩; exact ⟨⟨h1, h2⟩, h3⟩

/-- the dispute's turn in the outer loop deals with the penalty of every matching held appointment -/
theorem disputeStep_hits (s0 : Tower) (node : Node) (d p : TxId) (acc : Tower × List Uuid × List Rpc) (k : Uuid)
    (a : Appt) (h : Fixed s0 acc) (hk : k ∈ s0.db.apptKeys) (ha : s0.db.appts k = some a) (hl : k.1 = locOf d)
    (hd : a.blob.decrypt d = some p) : Answered s0 node (disputeStep node acc d).2.2 p := by
  unfold disputeStep
  have hmem : k ∈ acc.1.db.uuidsWithLoc (locOf d) := by
    rw [mem_uuidsWithLoc_iff, h.keys, h.appts, ha]
    exact ⟨hk, rfl, hl⟩
  exact foldl_hits (Fixed s0) (fun a => Answered s0 node a.2.2 p) (breachStep node d)
    (fun a y ha' => fixed_breachStep s0 node d a y ha')
    (fun a y _ hq => hq.mono (fun r hr => breachStep_log_mono node d a y r hr))
    _ k hmem (fun a' ha' => breachStep_hits s0 node d p a' k a ha' ha hd) acc h

/-- `handle_breaches` over a list of disputes containing `d` -/
theorem handleBreaches_answers (s : Tower) (node : Node) (disputes : List TxId) (d p : TxId) (k : Uuid) (a : Appt)
    (hdm : d ∈ disputes) (hk : k ∈ s.db.apptKeys) (ha : s.db.appts k = some a) (hl : k.1 = locOf d)
    (hd : a.blob.decrypt d = some p) : Answered s node (handleBreaches s node disputes).2.2 p := by
  unfold handleBreaches
  exact foldl_hits (Fixed s) (fun a => Answered s node a.2.2 p) (disputeStep node)
    (fun a y ha' => fixed_disputeStep s node a y ha')
    (fun a y _ hq => hq.mono (fun r hr => disputeStep_log_mono node a y r hr))
    disputes d hdm (fun a' ha' => disputeStep_hits s node d p a' k a ha' hk ha hl hd) (s, [], [])
    ⟨rfl, rfl, rfl, fun x hx => Or.inl hx⟩

/-- **the watcher's block handler deals with every breach**: for every held appointment whose locator is
the locator of a transaction of the block and whose blob decrypts under it -/
theorem watcherConnect_answers (s : Tower) (node : Node) (b height : Nat) (txs : List TxId) (d p : TxId) (k : Uuid)
    (a : Appt) (hdm : d ∈ txs) (hk : k ∈ s.db.apptKeys) (ha : s.db.appts k = some a) (hl : k.1 = locOf d)
    (hd : a.blob.decrypt d = some p) : Answered s node (watcherConnect s node b height txs).2 p := by
  unfold watcherConnect
  simp only
  have hin : d ∈ txs.filter fun t => !(Db.uuidsWithLoc s.db (locOf t)).isEmpty := by
    refine List.mem_filter.2 ⟨hdm, ?_⟩
    have : k ∈ s.db.uuidsWithLoc (locOf d) := by
      rw [mem_uuidsWithLoc_iff, ha]; exact ⟨hk, rfl, hl⟩
    cases hu : s.db.uuidsWithLoc (locOf d) with
    | nil => rw [hu] at this; cases this
    | cons _ _ => rfl
  have := handleBreaches_answers
    { s with mem := { s.mem with cache := s.mem.cache.update b (txs.map fun t => (locOf t, t)) } } node
    (txs.filter fun t => !(Db.uuidsWithLoc s.db (locOf t)).isEmpty) d p k a hin hk ha hl hd
  exact this

/-! ### nothing else is touched -/

/-- rows whose locator is not the locator of any transaction in `txs` are what they were, and every key
marked invalid carries the locator of a transaction in `txs` -/
structure Untouched (s0 : Tower) (txs : List TxId) (acc : Tower × List Uuid × List Rpc) : Prop where
  rows : ∀ k', (∀ d, d ∈ txs → k'.1 ≠ locOf d) →
    acc.1.db.appts k' = s0.db.appts k' ∧ acc.1.db.trackers k' = s0.db.trackers k'
  inv : ∀ x, x ∈ acc.2.1 → ∃ d, d ∈ txs ∧ x.1 = locOf d

theorem untouched_breachStep (s0 : Tower) (txs : List TxId) (node : Node) (d : TxId) (hd : d ∈ txs)
    (acc : Tower × List Uuid × List Rpc) (k : Uuid) (hk : k.1 = locOf d) (h : Untouched s0 txs acc) :
    Untouched s0 txs (breachStep node d acc k) := by
  obtain ⟨s, inv, log⟩ := acc
  obtain ⟨h1, h2⟩ := h
  simp only at h1 h2
  have hne : ∀ k', (∀ d, d ∈ txs → k'.1 ≠ locOf d) → k' ≠ k := by
    intro k' hk' e
    subst e
    exact hk' d hd hk
  have hinv : ∀ x, x ∈ inv ++ [k] → ∃ d, d ∈ txs ∧ x.1 = locOf d := by
    intro x hx
    rcases List.mem_append.1 hx with g | g
    · exact h2 x g
    · simp only [List.mem_singleton] at g; subst g; exact ⟨d, hd, hk⟩
  unfold breachStep
  simp only
  split
  · exact ⟨fun k' hk' => by rw [abort_db]; exact h1 k' hk', h2⟩
  · rename_i a _
    split
    · rename_i p _
      have fr := frame_handleBreach s node k d p a.user
      have rows : ∀ k', (∀ d, d ∈ txs → k'.1 ≠ locOf d) →
          (handleBreach s node k d p a.user).1.db.appts k' = s0.db.appts k' ∧
          (handleBreach s node k d p a.user).1.db.trackers k' = s0.db.trackers k' := by
        intro k' hk'
        rw [fr.appts k' (hne k' hk'), fr.trackers k' (hne k' hk')]
        exact h1 k' hk'
      split
      · exact ⟨rows, hinv⟩
      · exact ⟨rows, h2⟩
    · exact ⟨h1, hinv⟩

theorem untouched_handleBreaches (s : Tower) (txs : List TxId) (node : Node) (disputes : List TxId)
    (hsub : ∀ d, d ∈ disputes → d ∈ txs) : Untouched s txs (handleBreaches s node disputes) := by
  unfold handleBreaches
  refine foldl_inv_mem (Untouched s txs) (disputeStep node) disputes (s, [], []) ?_
    ⟨fun _ _ => ⟨rfl, rfl⟩, fun _ h => by cases h⟩
  intro acc d hd hacc
  unfold disputeStep
  exact foldl_inv_mem (Untouched s txs) (breachStep node d) _ acc
    (fun a k hk ha => untouched_breachStep s txs node d (hsub d hd) a k (mem_uuidsWithLoc _ _ _ hk) ha) hacc

/-- **the watcher touches nothing but breached appointments**: a row (appointment or tracker) whose
locator is not the locator of a transaction of the block is exactly what it was -/
theorem watcherConnect_untouched (s : Tower) (node : Node) (b height : Nat) (txs : List TxId) (k' : Uuid)
    (hk' : ∀ d, d ∈ txs → k'.1 ≠ locOf d) :
    (watcherConnect s node b height txs).1.db.appts k' = s.db.appts k' ∧
    (watcherConnect s node b height txs).1.db.trackers k' = s.db.trackers k' := by
  unfold watcherConnect
  simp only
  have u := untouched_handleBreaches
    { s with mem := { s.mem with cache := s.mem.cache.update b (txs.map fun t => (locOf t, t)) } } txs node
    (txs.filter fun t => !(Db.uuidsWithLoc s.db (locOf t)).isEmpty) (fun d hd => (List.mem_filter.1 hd).1)
  generalize handleBreaches _ node _ = r at u
  obtain ⟨s2, invalid, log⟩ := r
  obtain ⟨u1, u2⟩ := u
  simp only at u1 u2 ⊢
  split
  · exact u1 k' hk'
  · have hni : k' ∉ invalid := by
      intro hin
      obtain ⟨d, hd, e⟩ := u2 k' hin
      exact hk' d hd e
    unfold deleteAppointments
    simp only [Bool.false_eq_true, ↓reduceIte]
    rw [Db.removeAppts_appts, if_neg hni, Db.removeAppts_trackers_ne _ _ _ hni]
    exact u1 k' hk'

end Teos
