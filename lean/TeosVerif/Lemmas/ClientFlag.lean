/- Once a proof of misbehaviour is in the client's file it stays there, and the tower stays known, until the
tower is abandoned (C14, C18). -/
import TeosVerif.Lemmas.Client

namespace Teos.Client

/-- the proof of misbehaviour of tower `t` is in the file and the tower is known -/
def Flagged (c : Client) (t : TowerId) : Prop := (c.store.proofs t).isSome = true ∧ (c.towers t).isSome = true

theorem setSummary_known (c : Client) (x t : TowerId) (sm : Summary) (h : (c.towers t).isSome = true) :
    ((c.setSummary x sm).towers t).isSome = true := by
  unfold Client.setSummary
  simp only
  split
  · rfl
  · exact h

theorem panic_flagged (c : Client) (t : TowerId) (h : Flagged c t) : Flagged c.panic.1 t := h

/-- one client operation other than abandoning `t` keeps `t`'s proof in the file and `t` known -/
theorem flagged_step (c : Client) (op : Op) (t : TowerId) (hwf : StoreWF c.store) (h : Flagged c t)
    (hop : op ≠ .abandon t) : Flagged (c.step op).1 t := by
  have h0 := h
  obtain ⟨hp, hk⟩ := h
  have hdead : c.dead = true → Flagged (c, Reply.dead).1 t := fun _ => h0
  unfold Client.step
  cases op with
  | reload =>
    refine ⟨hp, ?_⟩
    simp only [Client.reload]
    have ht : c.store.towers t ≠ none := fun e => by
      rw [hwf.gone_proofs t e] at hp; cases hp
    cases hl : c.store.loadSummary t with
    | none => exact absurd ((loadSummary_of_wf hwf t).mp hl) ht
    | some d => rfl
  | register x a r =>
    simp only
    split
    · exact h0
    · unfold Client.addUpdateTower
      split
      · split
        · exact h0
        · rename_i st hst
          unfold Store.storeTowerRecord at hst
          split at hst
          · cases hst
          · simp only [Option.some.injEq] at hst; subst hst
            exact ⟨hp, setSummary_known _ x t _ hk⟩
      · split
        · exact h0
        · split
          · exact h0
          · split
            · exact h0
            · split
              · exact h0
              · rename_i st hst
                unfold Store.storeTowerRecord at hst
                split at hst
                · cases hst
                · simp only [Option.some.injEq] at hst; subst hst
                  exact ⟨hp, setSummary_known _ x t _ hk⟩
  | receipt x l sl r =>
    simp only
    split
    · exact h0
    · unfold Client.addReceipt
      split
      · exact h0
      · split
        · exact ⟨hp, setSummary_known _ x t _ hk⟩
        · rename_i st hst
          unfold Store.storeApptReceipt at hst
          split at hst
          · simp only [Option.some.injEq] at hst; subst hst
            exact ⟨hp, setSummary_known _ x t _ hk⟩
          · cases hst
  | pending x l b =>
    simp only
    split
    · exact h0
    · unfold Client.addPending
      split
      · exact h0
      · split
        · exact h0
        · split
          · exact ⟨hp, setSummary_known _ x t _ hk⟩
          · rename_i st hst
            unfold Store.storePending at hst
            split at hst
            · cases hst
            · simp only [Option.some.injEq] at hst; subst hst
              refine ⟨?_, setSummary_known _ x t _ hk⟩
              simp only
              unfold Store.withBody
              split <;> exact hp
  | unpend x l =>
    simp only
    split
    · exact h0
    · unfold Client.removePending
      split
      · exact h0
      · refine ⟨?_, setSummary_known _ x t _ hk⟩
        simp only
        rw [deletePending_proofs]
        exact hp
  | invalid x l b =>
    simp only
    split
    · exact h0
    · unfold Client.addInvalid
      split
      · exact h0
      · split
        · exact h0
        · split
          · exact ⟨hp, setSummary_known _ x t _ hk⟩
          · rename_i st hst
            unfold Store.storeInvalid at hst
            split at hst
            · cases hst
            · simp only [Option.some.injEq] at hst; subst hst
              refine ⟨?_, setSummary_known _ x t _ hk⟩
              simp only
              unfold Store.withBody
              split <;> exact hp
  | misbehaving x p r =>
    simp only
    split
    · exact h0
    · unfold Client.flagMisbehaving
      split
      · exact h0
      · split
        · exact h0
        · split
          · exact h0
          · rename_i st hst
            unfold Store.storeProof at hst
            split at hst
            · simp only [Option.some.injEq] at hst; subst hst
              refine ⟨?_, setSummary_known _ x t _ hk⟩
              simp only [Client.setSummary]
              by_cases e : t = x
              · simp [e]
              · simp only [e, ↓reduceIte]; exact hp
            · cases hst
  | abandon x =>
    have hne : x ≠ t := fun e => hop (by rw [e])
    have hne' : t ≠ x := fun e => hne e.symm
    simp only
    split
    · exact h0
    · unfold Client.removeTower
      split
      · exact h0
      · refine ⟨?_, ?_⟩
        · simp only [Store.removeTowerRecord, hne', ↓reduceIte]; exact hp
        · simp only [hne', ↓reduceIte]; exact hk
  | status x st =>
    simp only
    split
    · exact h0
    · unfold Client.setStatus
      split
      · split
        · exact h0
        · exact ⟨hp, setSummary_known _ x t _ hk⟩
      · exact h0

end Teos.Client
