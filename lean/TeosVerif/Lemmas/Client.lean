/-
Helper lemmas about the client store model (`Model/Client.lean`). Core Lean only.
-/
import TeosVerif.Model.Client

namespace Teos.Client

/-! ### `maxReg` -/

theorem maxReg_mem : ∀ (l : List RegReceipt) (m : RegReceipt), maxReg l = some m →
    m ∈ l ∧ ∀ x ∈ l, x.expiry ≤ m.expiry := by
  intro l
  induction l with
  | nil => intro m h; simp [maxReg] at h
  | cons r rs ih =>
    intro m h
    simp only [maxReg] at h
    cases hm : maxReg rs with
    | none =>
      rw [hm] at h
      simp only [Option.some.injEq] at h
      subst h
      have : rs = [] := by
        cases rs with
        | nil => rfl
        | cons a as =>
          simp only [maxReg] at hm
          cases h2 : maxReg as <;> rw [h2] at hm <;> simp at hm
          split at hm <;> simp at hm
      subst this
      simp
    | some m' =>
      rw [hm] at h
      have ⟨hin, hle⟩ := ih m' hm
      by_cases hlt : m'.expiry < r.expiry
      · simp only [hlt, ↓reduceIte, Option.some.injEq] at h
        subst h
        refine ⟨by simp, ?_⟩
        intro x hx
        simp only [List.mem_cons] at hx
        rcases hx with rfl | hx
        · exact Nat.le_refl _
        · exact Nat.le_trans (hle x hx) (Nat.le_of_lt hlt)
      · simp only [hlt, ↓reduceIte, Option.some.injEq] at h
        subst h
        refine ⟨by simp [hin], ?_⟩
        intro x hx
        simp only [List.mem_cons] at hx
        rcases hx with rfl | hx
        · exact Nat.le_of_not_lt hlt
        · exact hle x hx

theorem maxReg_eq_none : ∀ (l : List RegReceipt), maxReg l = none ↔ l = [] := by
  intro l
  cases l with
  | nil => simp [maxReg]
  | cons r rs =>
    simp only [maxReg, reduceCtorEq, iff_false]
    cases maxReg rs with
    | none => simp
    | some m => simp only []; split <;> simp

/-- appending a receipt that outlives all stored ones makes it the current one -/
theorem maxReg_append (l : List RegReceipt) (r : RegReceipt)
    (h : ∀ x ∈ l, x.expiry < r.expiry) : maxReg (l ++ [r]) = some r := by
  induction l with
  | nil => simp [maxReg]
  | cons a as ih =>
    have h1 : maxReg (as ++ [r]) = some r := ih (fun x hx => h x (by simp [hx]))
    have h2 : a.expiry < r.expiry := h a (by simp)
    simp only [List.cons_append, maxReg, h1]
    have : ¬ r.expiry < a.expiry := Nat.not_lt.mpr (Nat.le_of_lt h2)
    simp [this]

/-! ### `locsOf` -/

theorem mem_locsOf (rows : List (TowerId × Loc)) (t : TowerId) (l : Loc) :
    l ∈ locsOf rows t ↔ (t, l) ∈ rows := by
  simp only [locsOf, List.mem_map, List.mem_filter, decide_eq_true_eq]
  constructor
  · rintro ⟨⟨a, b⟩, ⟨hm, ha⟩, hb⟩
    simp only at ha hb
    subst ha; subst hb; exact hm
  · intro h; exact ⟨(t, l), ⟨h, rfl⟩, rfl⟩

theorem locsOf_append (rows : List (TowerId × Loc)) (t l : Nat) (t' : TowerId) :
    locsOf (rows ++ [(t, l)]) t' = if t' = t then locsOf rows t' ++ [l] else locsOf rows t' := by
  simp only [locsOf, List.filter_append, List.map_append]
  by_cases h : t' = t
  · subst h; simp
  · have : ¬ t = t' := fun e => h e.symm
    simp [h, this]

theorem locsOf_filter_ne (rows : List (TowerId × Loc)) (t l : Nat) (t' : TowerId) :
    locsOf (rows.filter (fun p => p ≠ (t, l))) t' =
      if t' = t then (locsOf rows t').filter (· ≠ l) else locsOf rows t' := by
  unfold locsOf
  by_cases h : t' = t
  · subst h
    simp only [↓reduceIte, List.filter_map, List.filter_filter]
    congr 1
    apply List.filter_congr
    rintro ⟨a, b⟩ _
    by_cases ha : a = t' <;> by_cases hb : b = l <;> simp [ha, hb]
  · simp only [h, ↓reduceIte, List.filter_filter]
    congr 1
    apply List.filter_congr
    rintro ⟨a, b⟩ _
    by_cases ha : a = t'
    · subst ha; simp [h]
    · simp [ha]

theorem locsOf_filter_tower (rows : List (TowerId × Loc)) (t : Nat) (t' : TowerId) :
    locsOf (rows.filter (fun p => p.1 ≠ t)) t' = if t' = t then [] else locsOf rows t' := by
  unfold locsOf
  by_cases h : t' = t
  · subst h
    simp only [↓reduceIte, List.filter_filter, List.map_eq_nil_iff, List.filter_eq_nil_iff]
    rintro ⟨a, b⟩ _
    by_cases ha : a = t' <;> simp [ha]
  · simp only [h, ↓reduceIte, List.filter_filter]
    congr 1
    apply List.filter_congr
    rintro ⟨a, b⟩ _
    by_cases ha : a = t'
    · subst ha; simp [h]
    · simp [ha]

end Teos.Client

namespace Teos.Client

/-! ### The invariant: a well-formed store and summaries that mirror it -/

/-- what the schema's foreign keys guarantee, plus "a tower row has a registration receipt" -/
structure StoreWF (s : Store) : Prop where
  regs_some : ∀ t, s.towers t ≠ none → s.regs t ≠ []
  gone_regs : ∀ t, s.towers t = none → s.regs t = []
  gone_proofs : ∀ t, s.towers t = none → s.proofs t = none
  gone_rcpts : ∀ t l, s.towers t = none → s.rcpts t l = none
  fk_pending : ∀ t l, (t, l) ∈ s.pending → s.towers t ≠ none
  fk_invalid : ∀ t l, (t, l) ∈ s.invalid → s.towers t ≠ none
  body_pending : ∀ t l, (t, l) ∈ s.pending → s.bodies l ≠ none
  body_invalid : ∀ t l, (t, l) ∈ s.invalid → s.bodies l ≠ none
  proof_rcpt : ∀ t p, s.proofs t = some p → s.rcpts t p.loc ≠ none

/-- `sm` is what the store says about tower `t` (everything but the status, which memory may
refine: unreachable / subscription error are not persisted) -/
def SummaryOf (s : Store) (t : TowerId) (sm : Summary) : Prop :=
  ∃ row r, s.towers t = some row ∧ maxReg (s.regs t) = some r ∧
    sm.addr = row.addr ∧ sm.slots = row.slots ∧ sm.start = r.start ∧ sm.expiry = r.expiry ∧
    sm.pending = locsOf s.pending t ∧ sm.invalid = locsOf s.invalid t ∧
    (sm.status = .misbehaving ↔ (s.proofs t).isSome = true)

structure Inv (c : Client) : Prop where
  alive : c.dead = false
  wf : StoreWF c.store
  sync_none : ∀ t, c.towers t = none → c.store.towers t = none
  sync_some : ∀ t sm, c.towers t = some sm → SummaryOf c.store t sm

theorem StoreWF.empty : StoreWF Store.empty := by
  constructor <;> simp [Store.empty]

theorem Inv.fresh : Inv Client.fresh := by
  refine ⟨rfl, StoreWF.empty, ?_, ?_⟩ <;> simp [Client.fresh, Store.empty]

/-- a store whose towers all have receipts yields a summary for every tower row -/
theorem loadSummary_of_wf {s : Store} (h : StoreWF s) (t : TowerId) :
    (s.loadSummary t = none ↔ s.towers t = none) := by
  unfold Store.loadSummary
  cases ht : s.towers t with
  | none => simp
  | some row =>
    have : s.regs t ≠ [] := h.regs_some t (by simp [ht])
    cases hm : maxReg (s.regs t) with
    | none => exact absurd ((maxReg_eq_none _).mp hm) this
    | some r => simp

theorem summaryOf_loadSummary {s : Store} (t : TowerId) (sm : Summary)
    (h : s.loadSummary t = some sm) : SummaryOf s t sm := by
  unfold Store.loadSummary at h
  cases ht : s.towers t with
  | none => simp [ht] at h
  | some row =>
    cases hm : maxReg (s.regs t) with
    | none => simp [ht, hm] at h
    | some r =>
      simp only [ht, hm, Option.some.injEq] at h
      subst h
      refine ⟨row, r, ht, hm, rfl, rfl, rfl, rfl, rfl, rfl, ?_⟩
      simp only [reconStatus]
      cases (s.proofs t).isSome
      · simp only [Bool.false_eq_true, ↓reduceIte, iff_false]
        split <;> simp
      · simp

/-- reload: `WTClient::with_proxy` on a well-formed file -/
theorem Inv.reload {c : Client} (h : StoreWF c.store) : Inv c.reload := by
  refine ⟨rfl, h, ?_, ?_⟩
  · intro t ht
    exact (loadSummary_of_wf h t).mp ht
  · intro t sm hsm
    exact summaryOf_loadSummary t sm hsm

end Teos.Client

namespace Teos.Client

theorem SummaryOf.frame {s s' : Store} {t : TowerId} {sm : Summary} (h : SummaryOf s t sm)
    (h1 : s'.towers t = s.towers t) (h2 : s'.regs t = s.regs t)
    (h3 : locsOf s'.pending t = locsOf s.pending t)
    (h4 : locsOf s'.invalid t = locsOf s.invalid t)
    (h5 : s'.proofs t = s.proofs t) : SummaryOf s' t sm := by
  obtain ⟨row, r, a1, a2, a3, a4, a5, a6, a7, a8, a9⟩ := h
  exact ⟨row, r, by rw [h1, a1], by rw [h2, a2], a3, a4, a5, a6, by rw [h3, a7], by rw [h4, a8],
    by rw [h5]; exact a9⟩

/-! #### abandon -/

theorem StoreWF.removeTowerRecord {s : Store} (h : StoreWF s) (t : TowerId) :
    StoreWF (s.removeTowerRecord t) := by
  constructor
  · intro x hx
    by_cases e : x = t
    · simp [Store.removeTowerRecord, e] at hx
    · simp only [Store.removeTowerRecord, e, ↓reduceIte] at hx ⊢; exact h.regs_some x hx
  · intro x hx
    by_cases e : x = t
    · simp [Store.removeTowerRecord, e]
    · simp only [Store.removeTowerRecord, e, ↓reduceIte] at hx ⊢; exact h.gone_regs x hx
  · intro x hx
    by_cases e : x = t
    · simp [Store.removeTowerRecord, e]
    · simp only [Store.removeTowerRecord, e, ↓reduceIte] at hx ⊢; exact h.gone_proofs x hx
  · intro x l hx
    by_cases e : x = t
    · simp [Store.removeTowerRecord, e]
    · simp only [Store.removeTowerRecord, e, ↓reduceIte] at hx ⊢; exact h.gone_rcpts x l hx
  · intro x l hx
    simp only [Store.removeTowerRecord, List.mem_filter, ne_eq, decide_not, Bool.not_eq_eq_eq_not,
      Bool.not_true, decide_eq_false_iff_not] at hx
    simp only [Store.removeTowerRecord, hx.2, ↓reduceIte]
    exact h.fk_pending x l hx.1
  · intro x l hx
    simp only [Store.removeTowerRecord, List.mem_filter, ne_eq, decide_not, Bool.not_eq_eq_eq_not,
      Bool.not_true, decide_eq_false_iff_not] at hx
    simp only [Store.removeTowerRecord, hx.2, ↓reduceIte]
    exact h.fk_invalid x l hx.1
  · intro x l hx
    simp only [Store.removeTowerRecord, List.mem_filter] at hx
    exact h.body_pending x l hx.1
  · intro x l hx
    simp only [Store.removeTowerRecord, List.mem_filter] at hx
    exact h.body_invalid x l hx.1
  · intro x p hx
    by_cases e : x = t
    · simp [Store.removeTowerRecord, e] at hx
    · simp only [Store.removeTowerRecord, e, ↓reduceIte] at hx ⊢; exact h.proof_rcpt x p hx

theorem Inv.removeTower {c : Client} (h : Inv c) (t : TowerId) : Inv (c.removeTower t).1 := by
  unfold Client.removeTower
  cases ht : c.towers t with
  | none => exact h
  | some sm =>
    refine ⟨h.alive, h.wf.removeTowerRecord t, ?_, ?_⟩
    · intro x hx
      by_cases e : x = t
      · simp [Store.removeTowerRecord, e]
      · simp only [e, ↓reduceIte] at hx
        simp only [Store.removeTowerRecord, e, ↓reduceIte]
        exact h.sync_none x hx
    · intro x sx hx
      by_cases e : x = t
      · simp [e] at hx
      · simp only [e, ↓reduceIte] at hx
        refine (h.sync_some x sx hx).frame ?_ ?_ ?_ ?_ ?_
        · simp [Store.removeTowerRecord, e]
        · simp [Store.removeTowerRecord, e]
        · simp only [Store.removeTowerRecord]; rw [locsOf_filter_tower]; simp [e]
        · simp only [Store.removeTowerRecord]; rw [locsOf_filter_tower]; simp [e]
        · simp [Store.removeTowerRecord, e]

/-! #### status -/

/-- the plugin calls `set_tower_status` with every status but `Misbehaving` (that one is only
ever set by `flag_misbehaving_tower`) -/
theorem Inv.setStatus {c : Client} (h : Inv c) (t : TowerId) (st : TStatus)
    (hst : st ≠ .misbehaving) : Inv (c.setStatus t st) := by
  unfold Client.setStatus
  cases ht : c.towers t with
  | none => exact h
  | some sm =>
    by_cases hm : sm.status = .misbehaving
    · simp only [hm, ↓reduceIte]; exact h
    · simp only [hm, ↓reduceIte]
      refine ⟨h.alive, h.wf, ?_, ?_⟩
      · intro x hx
        by_cases e : x = t
        · simp [Client.setSummary, e] at hx
        · simp only [Client.setSummary, e, ↓reduceIte] at hx; exact h.sync_none x hx
      · intro x sx hx
        by_cases e : x = t
        · subst e
          simp only [Client.setSummary, ↓reduceIte, Option.some.injEq] at hx
          subst hx
          obtain ⟨row, r, a1, a2, a3, a4, a5, a6, a7, a8, a9⟩ := h.sync_some x sm ht
          refine ⟨row, r, a1, a2, a3, a4, a5, a6, a7, a8, ?_⟩
          simp only [hst, false_iff]
          intro hp
          exact hm (a9.mpr hp)
        · simp only [Client.setSummary, e, ↓reduceIte] at hx; exact h.sync_some x sx hx

end Teos.Client

namespace Teos.Client

/-! #### pending / invalid references -/

@[simp] theorem withBody_towers (s : Store) (l : Loc) (b : Body) : (s.withBody l b).towers = s.towers := by
  unfold Store.withBody; split <;> rfl
@[simp] theorem withBody_regs (s : Store) (l : Loc) (b : Body) : (s.withBody l b).regs = s.regs := by
  unfold Store.withBody; split <;> rfl
@[simp] theorem withBody_rcpts (s : Store) (l : Loc) (b : Body) : (s.withBody l b).rcpts = s.rcpts := by
  unfold Store.withBody; split <;> rfl
@[simp] theorem withBody_proofs (s : Store) (l : Loc) (b : Body) : (s.withBody l b).proofs = s.proofs := by
  unfold Store.withBody; split <;> rfl
@[simp] theorem withBody_pending (s : Store) (l : Loc) (b : Body) : (s.withBody l b).pending = s.pending := by
  unfold Store.withBody; split <;> rfl
@[simp] theorem withBody_invalid (s : Store) (l : Loc) (b : Body) : (s.withBody l b).invalid = s.invalid := by
  unfold Store.withBody; split <;> rfl

theorem withBody_self (s : Store) (l : Loc) (b : Body) : (s.withBody l b).bodies l ≠ none := by
  unfold Store.withBody
  split
  · rename_i x hx; simp [hx]
  · simp

theorem withBody_mono (s : Store) (l : Loc) (b : Body) (x : Loc) (h : s.bodies x ≠ none) :
    (s.withBody l b).bodies x ≠ none := by
  unfold Store.withBody
  split
  · exact h
  · rename_i hn
    by_cases e : x = l
    · subst e; exact absurd hn h
    · simp [e, h]

/-- an existing body is never replaced -/
theorem withBody_keeps (s : Store) (l : Loc) (b : Body) (x : Loc) (old : Body)
    (h : s.bodies x = some old) : (s.withBody l b).bodies x = some old := by
  unfold Store.withBody
  split
  · exact h
  · rename_i hn
    by_cases e : x = l
    · subst e; rw [hn] at h; cases h
    · simp [e, h]

theorem StoreWF.addPendingRow {s : Store} (h : StoreWF s) (t : TowerId) (l : Loc) (b : Body)
    (ht : s.towers t ≠ none) :
    StoreWF { s.withBody l b with pending := s.pending ++ [(t, l)] } := by
  constructor
  · intro x hx; simpa using h.regs_some x (by simpa using hx)
  · intro x hx; simpa using h.gone_regs x (by simpa using hx)
  · intro x hx; simpa using h.gone_proofs x (by simpa using hx)
  · intro x y hx; simpa using h.gone_rcpts x y (by simpa using hx)
  · intro x y hx
    simp only [List.mem_append, List.mem_singleton, Prod.mk.injEq] at hx
    rcases hx with hx | ⟨rfl, rfl⟩
    · simpa using h.fk_pending x y hx
    · simpa using ht
  · intro x y hx
    simp only [withBody_invalid] at hx
    simpa using h.fk_invalid x y hx
  · intro x y hx
    simp only [List.mem_append, List.mem_singleton, Prod.mk.injEq] at hx
    rcases hx with hx | ⟨rfl, rfl⟩
    · exact withBody_mono s l b y (h.body_pending x y hx)
    · exact withBody_self s y b
  · intro x y hx
    simp only [withBody_invalid] at hx
    exact withBody_mono s l b y (h.body_invalid x y hx)
  · intro x p hx; simpa using h.proof_rcpt x p (by simpa using hx)

theorem StoreWF.addInvalidRow {s : Store} (h : StoreWF s) (t : TowerId) (l : Loc) (b : Body)
    (ht : s.towers t ≠ none) :
    StoreWF { s.withBody l b with invalid := s.invalid ++ [(t, l)] } := by
  constructor
  · intro x hx; simpa using h.regs_some x (by simpa using hx)
  · intro x hx; simpa using h.gone_regs x (by simpa using hx)
  · intro x hx; simpa using h.gone_proofs x (by simpa using hx)
  · intro x y hx; simpa using h.gone_rcpts x y (by simpa using hx)
  · intro x y hx
    simp only [withBody_pending] at hx
    simpa using h.fk_pending x y hx
  · intro x y hx
    simp only [List.mem_append, List.mem_singleton, Prod.mk.injEq] at hx
    rcases hx with hx | ⟨rfl, rfl⟩
    · simpa using h.fk_invalid x y hx
    · simpa using ht
  · intro x y hx
    simp only [withBody_pending] at hx
    exact withBody_mono s l b y (h.body_pending x y hx)
  · intro x y hx
    simp only [List.mem_append, List.mem_singleton, Prod.mk.injEq] at hx
    rcases hx with hx | ⟨rfl, rfl⟩
    · exact withBody_mono s l b y (h.body_invalid x y hx)
    · exact withBody_self s y b
  · intro x p hx; simpa using h.proof_rcpt x p (by simpa using hx)

theorem contains_locsOf (rows : List (TowerId × Loc)) (t : TowerId) (l : Loc) :
    (locsOf rows t).contains l = rows.contains (t, l) := by
  rw [Bool.eq_iff_iff]
  simp only [List.contains_iff_mem]
  exact mem_locsOf rows t l

theorem Inv.addPending {c : Client} (h : Inv c) (t : TowerId) (l : Loc) (b : Body) :
    Inv (c.addPending t l b).1 := by
  unfold Client.addPending
  cases ht : c.towers t with
  | none => exact h
  | some sm =>
    simp only
    obtain ⟨row, r, a1, a2, a3, a4, a5, a6, a7, a8, a9⟩ := h.sync_some t sm ht
    by_cases hc : sm.pending.contains l = true
    · simp only [hc, ↓reduceIte]; exact h
    · simp only [hc, Bool.false_eq_true, ↓reduceIte]
      have hnp : c.store.isPending t l = false := by
        unfold Store.isPending
        rw [← contains_locsOf, ← a7]; simpa using hc
      have hstore : c.store.storePending t l b =
          some { c.store.withBody l b with pending := c.store.pending ++ [(t, l)] } := by
        unfold Store.storePending
        simp [a1, hnp]
      rw [hstore]
      refine ⟨h.alive, h.wf.addPendingRow t l b (by simp [a1]), ?_, ?_⟩
      · intro x hx
        by_cases e : x = t
        · simp [Client.setSummary, e] at hx
        · simp only [Client.setSummary, e, ↓reduceIte] at hx
          simpa using h.sync_none x hx
      · intro x sx hx
        by_cases e : x = t
        · subst e
          simp only [Client.setSummary, ↓reduceIte, Option.some.injEq] at hx
          subst hx
          refine ⟨row, r, by simpa using a1, by simpa using a2, a3, a4, a5, a6, ?_, by simpa using a8,
            by simpa using a9⟩
          simp only [locsOf_append, ↓reduceIte, a7]
        · simp only [Client.setSummary, e, ↓reduceIte] at hx
          refine (h.sync_some x sx hx).frame (by simp) (by simp) ?_ (by simp) (by simp)
          simp only [locsOf_append, e, ↓reduceIte, withBody_pending]

theorem Inv.addInvalid {c : Client} (h : Inv c) (t : TowerId) (l : Loc) (b : Body) :
    Inv (c.addInvalid t l b).1 := by
  unfold Client.addInvalid
  cases ht : c.towers t with
  | none => exact h
  | some sm =>
    simp only
    obtain ⟨row, r, a1, a2, a3, a4, a5, a6, a7, a8, a9⟩ := h.sync_some t sm ht
    by_cases hc : sm.invalid.contains l = true
    · simp only [hc, ↓reduceIte]; exact h
    · simp only [hc, Bool.false_eq_true, ↓reduceIte]
      have hnp : c.store.isInvalid t l = false := by
        unfold Store.isInvalid
        rw [← contains_locsOf, ← a8]; simpa using hc
      have hstore : c.store.storeInvalid t l b =
          some { c.store.withBody l b with invalid := c.store.invalid ++ [(t, l)] } := by
        unfold Store.storeInvalid
        simp [a1, hnp]
      rw [hstore]
      refine ⟨h.alive, h.wf.addInvalidRow t l b (by simp [a1]), ?_, ?_⟩
      · intro x hx
        by_cases e : x = t
        · simp [Client.setSummary, e] at hx
        · simp only [Client.setSummary, e, ↓reduceIte] at hx
          simpa using h.sync_none x hx
      · intro x sx hx
        by_cases e : x = t
        · subst e
          simp only [Client.setSummary, ↓reduceIte, Option.some.injEq] at hx
          subst hx
          refine ⟨row, r, by simpa using a1, by simpa using a2, a3, a4, a5, a6, by simpa using a7, ?_,
            by simpa using a9⟩
          simp only [locsOf_append, ↓reduceIte, a8]
        · simp only [Client.setSummary, e, ↓reduceIte] at hx
          refine (h.sync_some x sx hx).frame (by simp) (by simp) (by simp) ?_ (by simp)
          simp only [locsOf_append, e, ↓reduceIte, withBody_invalid]

end Teos.Client

namespace Teos.Client

/-! #### releasing a pending reference -/

theorem refCount_eq_zero (s : Store) (l : Loc) :
    s.refCount l = 0 ↔ (∀ x, (x, l) ∉ s.pending) ∧ (∀ x, (x, l) ∉ s.invalid) := by
  unfold Store.refCount
  simp only [Nat.add_eq_zero_iff, List.length_eq_zero_iff, List.filter_eq_nil_iff,
    decide_eq_true_eq]
  constructor
  · rintro ⟨h1, h2⟩
    exact ⟨fun x hx => h1 (x, l) hx rfl, fun x hx => h2 (x, l) hx rfl⟩
  · rintro ⟨h1, h2⟩
    refine ⟨?_, ?_⟩
    · rintro ⟨a, b⟩ hm hb; simp only at hb; subst hb; exact h1 a hm
    · rintro ⟨a, b⟩ hm hb; simp only at hb; subst hb; exact h2 a hm

theorem deletePending_towers (s : Store) (t : TowerId) (l : Loc) :
    (s.deletePending t l).towers = s.towers := by
  unfold Store.deletePending; simp only; split <;> rfl
theorem deletePending_regs (s : Store) (t : TowerId) (l : Loc) :
    (s.deletePending t l).regs = s.regs := by
  unfold Store.deletePending; simp only; split <;> rfl
theorem deletePending_rcpts (s : Store) (t : TowerId) (l : Loc) :
    (s.deletePending t l).rcpts = s.rcpts := by
  unfold Store.deletePending; simp only; split <;> rfl
theorem deletePending_proofs (s : Store) (t : TowerId) (l : Loc) :
    (s.deletePending t l).proofs = s.proofs := by
  unfold Store.deletePending; simp only; split <;> rfl
theorem deletePending_invalid (s : Store) (t : TowerId) (l : Loc) :
    (s.deletePending t l).invalid = s.invalid := by
  unfold Store.deletePending; simp only; split <;> rfl
theorem deletePending_pending (s : Store) (t : TowerId) (l : Loc) :
    (s.deletePending t l).pending = s.pending.filter (fun p => p ≠ (t, l)) := by
  unfold Store.deletePending; simp only; split <;> rfl

/-- the store after this tower's pending row for `l` is gone -/
def Store.released (s : Store) (t : TowerId) (l : Loc) : Store :=
  { s with pending := s.pending.filter (fun p => p ≠ (t, l)) }

/-- the body of `l` survives exactly when somebody still references it; no other body moves -/
theorem deletePending_bodies (s : Store) (t : TowerId) (l : Loc) (x : Loc) :
    (s.deletePending t l).bodies x =
      if x = l ∧ (s.released t l).refCount l = 0 then none else s.bodies x := by
  unfold Store.deletePending Store.released
  simp only
  by_cases hz : Store.refCount { s with pending := s.pending.filter (fun p => p ≠ (t, l)) } l = 0
  · simp only [hz, ↓reduceIte, and_true]
  · simp only [hz, ↓reduceIte, and_false]

theorem StoreWF.deletePending {s : Store} (h : StoreWF s) (t : TowerId) (l : Loc) :
    StoreWF (s.deletePending t l) := by
  constructor
  · intro x hx; rw [deletePending_towers] at hx; rw [deletePending_regs]; exact h.regs_some x hx
  · intro x hx; rw [deletePending_towers] at hx; rw [deletePending_regs]; exact h.gone_regs x hx
  · intro x hx; rw [deletePending_towers] at hx; rw [deletePending_proofs]; exact h.gone_proofs x hx
  · intro x y hx; rw [deletePending_towers] at hx; rw [deletePending_rcpts]; exact h.gone_rcpts x y hx
  · intro x y hx
    rw [deletePending_pending, List.mem_filter] at hx
    rw [deletePending_towers]; exact h.fk_pending x y hx.1
  · intro x y hx
    rw [deletePending_invalid] at hx
    rw [deletePending_towers]; exact h.fk_invalid x y hx
  · intro x y hx
    rw [deletePending_pending] at hx
    rw [deletePending_bodies]
    by_cases hc : y = l ∧ (s.released t l).refCount l = 0
    · have := ((refCount_eq_zero _ l).mp hc.2).1 x
      exact absurd (hc.1 ▸ hx) this
    · simp only [hc, ↓reduceIte]
      exact h.body_pending x y (List.mem_filter.mp hx).1
  · intro x y hx
    rw [deletePending_invalid] at hx
    rw [deletePending_bodies]
    by_cases hc : y = l ∧ (s.released t l).refCount l = 0
    · have := ((refCount_eq_zero _ l).mp hc.2).2 x
      exact absurd (hc.1 ▸ hx) this
    · simp only [hc, ↓reduceIte]
      exact h.body_invalid x y hx
  · intro x p hx; rw [deletePending_proofs] at hx; rw [deletePending_rcpts]; exact h.proof_rcpt x p hx

theorem Inv.removePending {c : Client} (h : Inv c) (t : TowerId) (l : Loc) :
    Inv (c.removePending t l).1 := by
  unfold Client.removePending
  cases ht : c.towers t with
  | none => exact h
  | some sm =>
    simp only
    obtain ⟨row, r, a1, a2, a3, a4, a5, a6, a7, a8, a9⟩ := h.sync_some t sm ht
    refine ⟨h.alive, h.wf.deletePending t l, ?_, ?_⟩
    · intro x hx
      by_cases e : x = t
      · simp [Client.setSummary, e] at hx
      · simp only [Client.setSummary, e, ↓reduceIte] at hx
        simp only [deletePending_towers]
        exact h.sync_none x hx
    · intro x sx hx
      by_cases e : x = t
      · subst e
        simp only [Client.setSummary, ↓reduceIte, Option.some.injEq] at hx
        subst hx
        refine ⟨row, r, by simpa [deletePending_towers] using a1,
          by simpa [deletePending_regs] using a2, a3, a4, a5, a6, ?_,
          by simpa [deletePending_invalid] using a8, by simpa [deletePending_proofs] using a9⟩
        simp only [deletePending_pending]
        rw [locsOf_filter_ne]
        simp only [↓reduceIte, a7]
      · simp only [Client.setSummary, e, ↓reduceIte] at hx
        refine (h.sync_some x sx hx).frame (by simp [deletePending_towers])
          (by simp [deletePending_regs]) ?_ (by simp [deletePending_invalid])
          (by simp [deletePending_proofs])
        simp only [deletePending_pending]
        rw [locsOf_filter_ne]
        simp only [e, ↓reduceIte]

end Teos.Client

namespace Teos.Client

/-! #### receipts and proofs -/

theorem Inv.addReceipt {c : Client} (h : Inv c) (t : TowerId) (l : Loc) (slots : Nat) (rc : ApptReceipt) :
    Inv (c.addReceipt t l slots rc).1 := by
  unfold Client.addReceipt
  cases ht : c.towers t with
  | none => exact h
  | some sm =>
    simp only
    obtain ⟨row, r, a1, a2, a3, a4, a5, a6, a7, a8, a9⟩ := h.sync_some t sm ht
    have hstore : c.store.storeApptReceipt t l slots rc = some { c.store with
        rcpts := fun x y => if x = t ∧ y = l then some rc else c.store.rcpts x y,
        towers := fun x => if x = t then some { row with slots := slots } else c.store.towers x } := by
      unfold Store.storeApptReceipt; simp [a1]
    rw [hstore]
    have hw := h.wf
    refine ⟨h.alive, ?_, ?_, ?_⟩
    · constructor
      · intro x hx
        by_cases e : x = t
        · subst e; exact hw.regs_some x (by simp [a1])
        · simp only [e, ↓reduceIte] at hx; exact hw.regs_some x hx
      · intro x hx
        by_cases e : x = t
        · simp [e] at hx
        · simp only [e, ↓reduceIte] at hx; exact hw.gone_regs x hx
      · intro x hx
        by_cases e : x = t
        · simp [e] at hx
        · simp only [e, ↓reduceIte] at hx; exact hw.gone_proofs x hx
      · intro x y hx
        by_cases e : x = t
        · simp [e] at hx
        · simp only [e, ↓reduceIte] at hx
          simp only [e, false_and, ↓reduceIte]
          exact hw.gone_rcpts x y hx
      · intro x y hx
        by_cases e : x = t
        · simp [e]
        · simp only [e, ↓reduceIte]; exact hw.fk_pending x y hx
      · intro x y hx
        by_cases e : x = t
        · simp [e]
        · simp only [e, ↓reduceIte]; exact hw.fk_invalid x y hx
      · exact hw.body_pending
      · exact hw.body_invalid
      · intro x p hx
        simp only at hx ⊢
        by_cases e : x = t ∧ p.loc = l
        · simp [e]
        · simp only [e, ↓reduceIte]; exact hw.proof_rcpt x p hx
    · intro x hx
      by_cases e : x = t
      · simp [Client.setSummary, e] at hx
      · simp only [Client.setSummary, e, ↓reduceIte] at hx
        simp only [e, ↓reduceIte]
        exact h.sync_none x hx
    · intro x sx hx
      by_cases e : x = t
      · subst e
        simp only [Client.setSummary, ↓reduceIte, Option.some.injEq] at hx
        subst hx
        exact ⟨{ row with slots := slots }, r, by simp, a2, a3, rfl, a5, a6, a7, a8, a9⟩
      · simp only [Client.setSummary, e, ↓reduceIte] at hx
        exact (h.sync_some x sx hx).frame (by simp [e]) rfl rfl rfl rfl

theorem Inv.flagMisbehaving {c : Client} (h : Inv c) (t : TowerId) (p : Proof) (rc : ApptReceipt) :
    Inv (c.flagMisbehaving t p rc).1 := by
  unfold Client.flagMisbehaving
  cases ht : c.towers t with
  | none => exact h
  | some sm =>
    simp only
    obtain ⟨row, r, a1, a2, a3, a4, a5, a6, a7, a8, a9⟩ := h.sync_some t sm ht
    by_cases hm : sm.status = .misbehaving
    · simp only [hm, ↓reduceIte]; exact h
    · simp only [hm, ↓reduceIte]
      have hnp : c.store.proofs t = none := by
        cases hp : c.store.proofs t with
        | none => rfl
        | some q => exact absurd (a9.mpr (by simp [hp])) hm
      have hstore : c.store.storeProof t p rc = some { c.store with
          rcpts := fun x y => if x = t ∧ y = p.loc then some rc else c.store.rcpts x y,
          proofs := fun x => if x = t then some p else c.store.proofs x } := by
        unfold Store.storeProof; simp [a1, hnp]
      rw [hstore]
      have hw := h.wf
      simp only [Client.setSummary]
      refine ⟨h.alive, ?_, ?_, ?_⟩
      · constructor
        · exact hw.regs_some
        · exact hw.gone_regs
        · intro x hx
          by_cases e : x = t
          · subst e; simp only at hx; rw [a1] at hx; cases hx
          · simp only [e, ↓reduceIte]; exact hw.gone_proofs x hx
        · intro x y hx
          by_cases e : x = t
          · subst e; simp only at hx; rw [a1] at hx; cases hx
          · simp only [e, false_and, ↓reduceIte]; exact hw.gone_rcpts x y hx
        · exact hw.fk_pending
        · exact hw.fk_invalid
        · exact hw.body_pending
        · exact hw.body_invalid
        · intro x q hx
          simp only at hx ⊢
          by_cases e : x = t
          · subst e
            simp only [↓reduceIte, Option.some.injEq] at hx
            subst hx
            simp
          · simp only [e, ↓reduceIte] at hx
            simp only [e, false_and, ↓reduceIte]
            exact hw.proof_rcpt x q hx
      · intro x hx
        by_cases e : x = t
        · simp [e] at hx
        · simp only [e, ↓reduceIte] at hx
          exact h.sync_none x hx
      · intro x sx hx
        by_cases e : x = t
        · subst e
          simp only [↓reduceIte, Option.some.injEq] at hx
          subst hx
          exact ⟨row, r, a1, a2, a3, a4, a5, a6, a7, a8, by simp⟩
        · simp only [e, ↓reduceIte] at hx
          exact (h.sync_some x sx hx).frame rfl rfl rfl rfl (by simp [e])

end Teos.Client

namespace Teos.Client

/-! #### registration -/

theorem StoreWF.storeTowerRecord {s s' : Store} (h : StoreWF s) (t : TowerId) (addr : Nat)
    (r : RegReceipt) (hs : s.storeTowerRecord t addr r = some s')
    (hnew : s.towers t = none → True) : StoreWF s' := by
  unfold Store.storeTowerRecord at hs
  split at hs
  · cases hs
  · simp only [Option.some.injEq] at hs
    subst hs
    constructor
    · intro x hx
      by_cases e : x = t
      · simp [e]
      · simp only [e, ↓reduceIte] at hx ⊢; exact h.regs_some x hx
    · intro x hx
      by_cases e : x = t
      · simp [e] at hx
      · simp only [e, ↓reduceIte] at hx ⊢; exact h.gone_regs x hx
    · intro x hx
      by_cases e : x = t
      · simp [e] at hx
      · simp only [e, ↓reduceIte] at hx; exact h.gone_proofs x hx
    · intro x y hx
      by_cases e : x = t
      · simp [e] at hx
      · simp only [e, ↓reduceIte] at hx; exact h.gone_rcpts x y hx
    · intro x y hx
      by_cases e : x = t
      · simp [e]
      · simp only [e, ↓reduceIte]; exact h.fk_pending x y hx
    · intro x y hx
      by_cases e : x = t
      · simp [e]
      · simp only [e, ↓reduceIte]; exact h.fk_invalid x y hx
    · exact h.body_pending
    · exact h.body_invalid
    · exact h.proof_rcpt

theorem Inv.addUpdateTower {c : Client} (h : Inv c) (t : TowerId) (addr : Nat) (r : RegReceipt) :
    Inv (c.addUpdateTower t addr r).1 := by
  unfold Client.addUpdateTower
  cases ht : c.towers t with
  | none =>
    simp only
    have hnone := h.sync_none t ht
    have hregs : c.store.regs t = [] := h.wf.gone_regs t hnone
    have hstore : c.store.storeTowerRecord t addr r = some { c.store with
        towers := fun x => if x = t then some { addr := addr, slots := r.slots } else c.store.towers x,
        regs := fun x => if x = t then c.store.regs t ++ [r] else c.store.regs x } := by
      unfold Store.storeTowerRecord; simp [hregs]
    have hwf := h.wf.storeTowerRecord t addr r hstore (fun _ => trivial)
    rw [hstore]
    simp only [Client.setSummary]
    refine ⟨h.alive, hwf, ?_, ?_⟩
    · intro x hx
      by_cases e : x = t
      · simp [e] at hx
      · simp only [e, ↓reduceIte] at hx ⊢; exact h.sync_none x hx
    · intro x sx hx
      by_cases e : x = t
      · subst e
        simp only [↓reduceIte, Option.some.injEq] at hx
        subst hx
        refine ⟨{ addr := addr, slots := r.slots }, r, by simp, ?_, rfl, rfl, rfl, rfl, ?_, ?_, ?_⟩
        · simp [hregs, maxReg]
        · simp only
          symm
          rw [List.eq_nil_iff_forall_not_mem]
          intro l hl
          exact absurd hnone (h.wf.fk_pending x l ((mem_locsOf _ _ _).mp hl))
        · simp only
          symm
          rw [List.eq_nil_iff_forall_not_mem]
          intro l hl
          exact absurd hnone (h.wf.fk_invalid x l ((mem_locsOf _ _ _).mp hl))
        · simp [h.wf.gone_proofs x hnone]
      · simp only [e, ↓reduceIte] at hx
        exact (h.sync_some x sx hx).frame (by simp [e]) (by simp [e]) rfl rfl rfl
  | some old =>
    simp only
    obtain ⟨row, r0, a1, a2, a3, a4, a5, a6, a7, a8, a9⟩ := h.sync_some t old ht
    by_cases hexp : r.expiry ≤ old.expiry
    · simp only [hexp, ↓reduceIte]; exact h
    · simp only [hexp, ↓reduceIte]
      have hload : c.store.loadSummary t = some
          { addr := row.addr, slots := row.slots, start := r0.start, expiry := r0.expiry,
            status := reconStatus (c.store.proofs t).isSome (locsOf c.store.pending t),
            pending := locsOf c.store.pending t, invalid := locsOf c.store.invalid t } := by
        unfold Store.loadSummary; simp [a1, a2]
      rw [hload]
      simp only
      by_cases hsl : r.slots ≤ row.slots
      · simp only [hsl, ↓reduceIte]; exact h
      · simp only [hsl, ↓reduceIte]
        have hmax := maxReg_mem _ _ a2
        have hlt : ∀ x ∈ c.store.regs t, x.expiry < r.expiry := by
          intro x hx
          have := hmax.2 x hx
          omega
        have hstore : c.store.storeTowerRecord t addr r = some { c.store with
            towers := fun x => if x = t then some { addr := addr, slots := r.slots } else c.store.towers x,
            regs := fun x => if x = t then c.store.regs t ++ [r] else c.store.regs x } := by
          unfold Store.storeTowerRecord
          have : (c.store.regs t).any (fun x => decide (x.expiry = r.expiry)) = false := by
            rw [List.any_eq_false]
            intro x hx
            have := hlt x hx
            simp; omega
          simp [this]
        have hwf := h.wf.storeTowerRecord t addr r hstore (fun _ => trivial)
        rw [hstore]
        simp only [Client.setSummary]
        refine ⟨h.alive, hwf, ?_, ?_⟩
        · intro x hx
          by_cases e : x = t
          · simp [e] at hx
          · simp only [e, ↓reduceIte] at hx ⊢; exact h.sync_none x hx
        · intro x sx hx
          by_cases e : x = t
          · subst e
            simp only [↓reduceIte, Option.some.injEq] at hx
            subst hx
            exact ⟨{ addr := addr, slots := r.slots }, r, by simp,
              by simpa using maxReg_append _ r hlt, rfl, rfl, rfl, rfl, a7, a8, a9⟩
          · simp only [e, ↓reduceIte] at hx
            exact (h.sync_some x sx hx).frame (by simp [e]) (by simp [e]) rfl rfl rfl

end Teos.Client
