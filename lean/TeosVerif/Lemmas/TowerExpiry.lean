/-
Lemmas for C09 at the level of whole histories: only the gatekeeper's own handlers change the
gatekeeper's height or a subscription's window, and no user whose `expiry + grace` has been reached
survives a connected block.  Core Lean only.
-/
import TeosVerif.Lemmas.TowerInv
import TeosVerif.Lemmas.TowerUsers

namespace Teos

/-- a user's subscription window as the gatekeeper holds it -/
def window? (s : Tower) (u : User) : Option (Nat × Nat) := (s.mem.users u).map fun i => (i.start, i.expiry)

/-- the gatekeeper's height and every subscription window are what they were -/
structure GkSame (s s' : Tower) : Prop where
  height : s'.mem.gkHeight = s.mem.gkHeight
  win : ∀ u, window? s' u = window? s u

theorem GkSame.refl (s : Tower) : GkSame s s := ⟨rfl, fun _ => rfl⟩
theorem GkSame.trans {a b c : Tower} (h1 : GkSame a b) (h2 : GkSame b c) : GkSame a c :=
  ⟨h2.height.trans h1.height, fun u => (h2.win u).trans (h1.win u)⟩

theorem gkSame_of_eq (s s' : Tower) (hh : s'.mem.gkHeight = s.mem.gkHeight) (hu : s'.mem.users = s.mem.users) :
    GkSame s s' := ⟨hh, fun u => by unfold window?; rw [hu]⟩

theorem gkSame_abort (s : Tower) (site : String) : GkSame s (s.abort site) :=
  gkSame_of_eq _ _ (by rw [abort_mem]) (by rw [abort_mem])

theorem addTracker_mem' (s : Tower) (k : Uuid) (t : Tracker) : (addTracker s k t).mem = s.mem := by
  unfold addTracker; split <;> rfl

theorem carrierSend_gk (m : Mem) (node : Node) (tx : TxId) :
    (carrierSend m node tx).1.gkHeight = m.gkHeight ∧ (carrierSend m node tx).1.users = m.users := by
  unfold carrierSend; split <;> exact ⟨rfl, rfl⟩

theorem gkSame_handleBreach (s : Tower) (node : Node) (k : Uuid) (d p : TxId) (u : User) :
    GkSame s (handleBreach s node k d p u).1 := by
  unfold handleBreach
  split
  · split
    · exact gkSame_abort s _
    · exact gkSame_of_eq _ _ (by rw [addTracker_mem']) (by rw [addTracker_mem'])
  · split
    · exact gkSame_of_eq _ _ (by rw [addTracker_mem']) (by rw [addTracker_mem'])
    · simp only
      obtain ⟨c1, c2⟩ := carrierSend_gk s.mem node p
      split
      · exact gkSame_of_eq _ _ (by rw [addTracker_mem']; exact c1) (by rw [addTracker_mem']; exact c2)
      · exact gkSame_of_eq _ _ c1 c2

theorem gkSame_breachStep (node : Node) (d : TxId) (acc : Tower × List Uuid × List Rpc) (k : Uuid) :
    GkSame acc.1 (breachStep node d acc k).1 := by
  obtain ⟨s, inv, log⟩ := acc
  unfold breachStep
  simp only
  split
  · exact gkSame_abort s _
  · split
    · split <;> exact gkSame_handleBreach _ _ _ _ _ _
    · exact GkSame.refl s

theorem gkSame_foldl {α β : Type} (f : Tower × β → α → Tower × β) (hf : ∀ acc a, GkSame acc.1 (f acc a).1) :
    ∀ (xs : List α) (acc : Tower × β), GkSame acc.1 (xs.foldl f acc).1
  | [], acc => GkSame.refl _
  | x :: r, acc => by
    simp only [List.foldl_cons]
    exact (hf acc x).trans (gkSame_foldl f hf r _)

theorem gkSame_handleBreaches (s : Tower) (node : Node) (disputes : List TxId) :
    GkSame s (handleBreaches s node disputes).1 := by
  unfold handleBreaches
  refine gkSame_foldl (disputeStep node) ?_ disputes (s, [], [])
  intro acc d
  unfold disputeStep
  exact gkSame_foldl (breachStep node d) (fun a k => gkSame_breachStep node d a k) _ acc

theorem refundStep_gkHeight (acc : Tower × List User) (k : Uuid) :
    (refundStep acc k).1.mem.gkHeight = acc.1.mem.gkHeight := by
  obtain ⟨s, upd⟩ := acc
  unfold refundStep
  simp only
  split
  · rw [abort_mem]
  · split
    · rw [abort_mem]
    · rfl

theorem gkSame_deleteAppointments (s : Tower) (ks : List Uuid) (refund : Bool) :
    GkSame s (deleteAppointments s ks refund) := by
  unfold deleteAppointments
  cases refund with
  | false => exact gkSame_of_eq _ _ rfl rfl
  | true =>
    simp only [↓reduceIte]
    have hl := refundLoop_foldl s ks (s, []) ⟨rfl, fun _ _ => rfl, fun _ => rfl, List.nodup_nil⟩
    have hh : (ks.foldl refundStep (s, [])).1.mem.gkHeight = s.mem.gkHeight :=
      foldl_preserves (fun a : Tower × List User => a.1.mem.gkHeight = s.mem.gkHeight) refundStep
        (fun a k h => by rw [refundStep_gkHeight]; exact h) ks (s, []) rfl
    exact ⟨hh, fun u => hl.shape u⟩

theorem gkSame_watcherConnect (s : Tower) (node : Node) (b height : Nat) (txs : List TxId) :
    GkSame s (watcherConnect s node b height txs).1 := by
  unfold watcherConnect
  simp only
  have g1 : GkSame s { s with mem := { s.mem with cache := s.mem.cache.update b (txs.map fun t => (locOf t, t)) } } :=
    gkSame_of_eq _ _ rfl rfl
  have g2 := g1.trans (gkSame_handleBreaches _ node (txs.filter fun t => !(Db.uuidsWithLoc s.db (locOf t)).isEmpty))
  generalize handleBreaches _ node _ = r at g2
  obtain ⟨s2, invalid, log⟩ := r
  simp only at g2 ⊢
  split
  · exact g2.trans (gkSame_of_eq _ _ rfl rfl)
  · exact (g2.trans (gkSame_deleteAppointments s2 invalid false)).trans (gkSame_of_eq _ _ rfl rfl)

theorem gkSame_confirmStep (txids : List TxId) (height : Nat) (acc : Tower × List Uuid) (k : Uuid) :
    GkSame acc.1 (confirmStep txids height acc k).1 := by
  obtain ⟨s, done⟩ := acc
  unfold confirmStep
  simp only
  split
  · exact GkSame.refl _
  · split
    · split
      · exact gkSame_abort s _
      · exact gkSame_of_eq _ _ rfl rfl
    · split
      · exact GkSame.refl _
      · split
        · split
          · exact GkSame.refl _
          · exact GkSame.refl _
        all_goals exact GkSame.refl _

theorem gkSame_reorgStep (node : Node) (height : Nat) (acc : Tower × List Uuid × List Rpc) (k : Uuid) :
    GkSame acc.1 (reorgStep node height acc k).1 := by
  obtain ⟨s, rej, log⟩ := acc
  unfold reorgStep
  simp only
  split
  · exact GkSame.refl _
  · rename_i t _
    obtain ⟨c1, c2⟩ := carrierSend_gk s.mem node t.dispute
    have g1 : GkSame s { s with mem := (carrierSend s.mem node t.dispute).1 } := gkSame_of_eq _ _ c1 c2
    obtain ⟨d1, d2⟩ := carrierSend_gk (carrierSend s.mem node t.dispute).1 node t.penalty
    have g2 : GkSame s { s with mem := (carrierSend (carrierSend s.mem node t.dispute).1 node t.penalty).1 } :=
      gkSame_of_eq _ _ (d1.trans c1) (d2.trans c2)
    split
    · exact g1.trans (gkSame_abort _ _)
    · exact g1
    · split
      · exact g2
      · split
        · exact g2.trans (gkSame_abort _ _)
        · exact g2.trans (gkSame_of_eq _ _ rfl rfl)

theorem gkSame_rebroadcastStep (node : Node) (height : Nat) (acc : Tower × List Uuid × List Rpc) (k : Uuid) :
    GkSame acc.1 (rebroadcastStep node height acc k).1 := by
  obtain ⟨s, rej, log⟩ := acc
  unfold rebroadcastStep
  simp only
  split
  · exact gkSame_abort s _
  · rename_i t _
    obtain ⟨c1, c2⟩ := carrierSend_gk s.mem node t.penalty
    have g1 : GkSame s { s with mem := (carrierSend s.mem node t.penalty).1 } := gkSame_of_eq _ _ c1 c2
    split
    · exact g1
    · split
      · exact g1.trans (gkSame_abort _ _)
      · exact g1.trans (gkSame_of_eq _ _ rfl rfl)

theorem gkSame_respConnect (s : Tower) (node : Node) (b height : Nat) (txs : List TxId) :
    GkSame s (respConnect s node b height txs).1 := by
  unfold respConnect
  simp only
  have g1 : GkSame s (respPrepare s b height txs) := gkSame_of_eq _ _ rfl rfl
  have g2 : GkSame s (checkConfirmations (respPrepare s b height txs) txs height).1 := by
    refine g1.trans ?_
    unfold checkConfirmations
    exact gkSame_foldl (confirmStep txs height) (fun a k => gkSame_confirmStep txs height a k) _ (respPrepare s b height txs, [])
  generalize checkConfirmations (respPrepare s b height txs) txs height = cc at g2
  obtain ⟨s2, completed⟩ := cc
  simp only at g2 ⊢
  have g3 : GkSame s (if completed.isEmpty then s2 else deleteAppointments s2 completed true) := by
    split
    · exact g2
    · exact g2.trans (gkSame_deleteAppointments _ _ _)
  generalize (if completed.isEmpty then s2 else deleteAppointments s2 completed true) = s3 at g3
  have g4 : GkSame s (if s3.mem.reorged.isEmpty then (s3, ([] : List Uuid), ([] : List Rpc)) else handleReorgedTxs s3 node height).1 := by
    split
    · exact g3
    · refine g3.trans ?_
      unfold handleReorgedTxs
      have g0 : GkSame s3 { s3 with mem := { s3.mem with reorged := [] } } := gkSame_of_eq _ _ rfl rfl
      exact g0.trans (gkSame_foldl (reorgStep node height) (fun a k => gkSame_reorgStep node height a k) s3.mem.reorged
        ({ s3 with mem := { s3.mem with reorged := [] } }, [], []))
  generalize (if s3.mem.reorged.isEmpty then (s3, ([] : List Uuid), ([] : List Rpc)) else handleReorgedTxs s3 node height) = r4 at g4
  obtain ⟨s4, rej1, log1⟩ := r4
  simp only at g4 ⊢
  have g5 : GkSame s (rebroadcastStaleTxs s4 node height).1 := by
    refine g4.trans ?_
    unfold rebroadcastStaleTxs
    split
    · exact gkSame_abort _ _
    · exact gkSame_foldl (rebroadcastStep node height) (fun a k => gkSame_rebroadcastStep node height a k) _ (s4, [], [])
  generalize rebroadcastStaleTxs s4 node height = r5 at g5
  obtain ⟨s5, rej2, log2⟩ := r5
  simp only at g5 ⊢
  split
  · exact g5.trans (gkSame_of_eq _ _ rfl rfl)
  · exact (g5.trans (gkSame_deleteAppointments _ _ _)).trans (gkSame_of_eq _ _ rfl rfl)

/-! ### requests -/

theorem storeAppointment_mem (s : Tower) (k : Uuid) (a : Appt) : (storeAppointment s k a).mem = s.mem := by
  unfold storeAppointment
  split
  · split
    · rfl
    · rw [abort_mem]
  · split
    · rfl
    · rw [abort_mem]

theorem gkSame_storeTriggered (s : Tower) (node : Node) (k : Uuid) (a : Appt) (d : TxId) :
    GkSame s (storeTriggeredAppointment s node k a d).1 := by
  unfold storeTriggeredAppointment
  split
  · simp only
    have g1 : GkSame s (storeAppointment s k a) := gkSame_of_eq _ _ (by rw [storeAppointment_mem]) (by rw [storeAppointment_mem])
    rename_i p _
    have g2 := g1.trans (gkSame_handleBreach (storeAppointment s k a) node k d p a.user)
    split
    · dsimp only; exact g2.trans (gkSame_deleteAppointments _ _ _)
    · exact g2
  · exact gkSame_deleteAppointments s [k] false

theorem gkSame_addUpdateAppointment (s : Tower) (u : User) (k : Uuid) (len : Nat) :
    GkSame s (addUpdateAppointment s u k len).1 := by
  unfold addUpdateAppointment
  split
  · exact gkSame_abort s _
  · rename_i ui hui
    simp only
    split
    · refine ⟨rfl, fun x => ?_⟩
      unfold window?
      simp only
      by_cases e : x = u
      · subst e; simp only [↓reduceIte, hui, Option.map_some]
      · simp only [e, ↓reduceIte]
    · exact GkSame.refl s

theorem gkSame_addAppointment (s : Tower) (node : Node) (sg : Option User) (l : Loc) (b : Blob) (t u : Nat) :
    GkSame s (addAppointment s node sg l b t u).1 := by
  unfold addAppointment
  split
  · exact GkSame.refl s
  · rename_i usr ui _
    simp only
    split
    · exact GkSame.refl s
    · have g1 := gkSame_addUpdateAppointment s usr (l, usr) b.len
      generalize addUpdateAppointment s usr (l, usr) b.len = r at g1
      obtain ⟨s1, av⟩ := r
      simp only at g1 ⊢
      cases av with
      | none => exact g1
      | some avail =>
        simp only
        split
        · exact g1.trans (gkSame_storeTriggered s1 node (l, usr) _ _)
        · exact g1.trans (gkSame_of_eq _ _ (by rw [storeAppointment_mem]) (by rw [storeAppointment_mem]))

/-! ### the invariant -/

/-- nobody whose `expiry + grace` has been reached is still held; heights fit a `u32` -/
structure EInv (cfg : Cfg) (s : Tower) : Prop where
  tinv : TInv s
  fresh : ∀ u w, window? s u = some w → s.mem.gkHeight < w.2 + cfg.grace
  bound : s.mem.gkHeight < u32Max

theorem EInv.same {cfg : Cfg} {s s' : Tower} (h : EInv cfg s) (g : GkSame s s') (t : TInv s') : EInv cfg s' :=
  ⟨t, fun u w hw => by rw [g.height]; exact h.fresh u w (by rw [← g.win u]; exact hw), by rw [g.height]; exact h.bound⟩

theorem einv_gkConnect (cfg : Cfg) (s : Tower) (H : Nat) (h : EInv cfg s) (hH : H < u32Max) :
    EInv cfg (gkConnect cfg s H) := by
  refine ⟨(tinv_gkConnect cfg s H h.tinv).1, ?_, by rw [gkConnect_height]; exact hH⟩
  intro u w hw
  rw [gkConnect_height]
  unfold window? at hw
  rw [gkConnect_mem_users] at hw
  split at hw
  · cases hw
  · rename_i hno
    cases hu : s.mem.users u with
    | none => rw [hu] at hw; cases hw
    | some ui =>
      rw [hu] at hw
      simp only [Option.map_some, Option.some.injEq] at hw
      subst hw
      have hkey : u ∈ s.db.userKeys := by
        apply h.tinv.db.user_keys
        rw [← h.tinv.dom, hu]; rfl
      have hnot : ¬ (ui.expiry + cfg.grace ≤ H) := fun hle =>
        hno ((mem_outdated_iff cfg s H u).2 ⟨hkey, ui, hu, hle⟩)
      exact Nat.lt_of_not_le hnot

theorem einv_register (cfg : Cfg) (s : Tower) (u : User) (h : EInv cfg s) (hpos : 0 < cfg.duration + cfg.grace) :
    EInv cfg (register cfg s u).1 := by
  have t' := tinv_register cfg s u h.tinv
  have key : (addUpdateUser cfg s u).1.mem.gkHeight = s.mem.gkHeight ∧
      ∀ x w, window? (addUpdateUser cfg s u).1 x = some w → s.mem.gkHeight < w.2 + cfg.grace := by
    unfold addUpdateUser
    simp only
    split
    · rename_i ui hui
      split
      · exact ⟨rfl, h.fresh⟩
      · refine ⟨rfl, fun x w hw => ?_⟩
        unfold window? at hw
        simp only at hw
        by_cases e : x = u
        · subst e
          simp only [↓reduceIte, Option.map_some, Option.some.injEq] at hw
          subst hw
          simp only
          have h0 := h.fresh x (ui.start, ui.expiry) (by unfold window?; rw [hui]; rfl)
          have hb := h.bound
          simp only at h0
          omega
        · simp only [e, ↓reduceIte] at hw
          exact h.fresh x w hw
    · split
      · exact ⟨by rw [abort_mem], fun x w hw => h.fresh x w (by unfold window? at hw ⊢; rw [abort_mem] at hw; exact hw)⟩
      · refine ⟨rfl, fun x w hw => ?_⟩
        unfold window? at hw
        simp only at hw
        by_cases e : x = u
        · subst e
          simp only [↓reduceIte, Option.map_some, Option.some.injEq] at hw
          subst hw
          simp only
          omega
        · simp only [e, ↓reduceIte] at hw
          exact h.fresh x w hw
  have e : (register cfg s u).1 = (addUpdateUser cfg s u).1 := by
    unfold register
    split <;> rename_i hh <;> rw [hh]
  rw [e] at t' ⊢
  exact ⟨t', fun x w hw => by rw [key.1]; exact key.2 x w hw, by rw [key.1]; exact h.bound⟩

/-- what a valid history may do next, as far as heights go -/
def OpValidE (s : Tower) : Op → Prop
  | .connect _ h _ => h < u32Max
  | .disconnect _ h => h - 1 ≤ s.mem.gkHeight
  | _ => True

theorem einv_step (cfg : Cfg) (s : Tower) (node : Node) (op : Op) (h : EInv cfg s)
    (hpos : 0 < cfg.duration + cfg.grace) (hv : OpValid s op) (he : OpValidE s op) :
    EInv cfg (step cfg s node op).1 := by
  have t' := tinv_step cfg s node op h.tinv hv
  have ha : s.aborted.isSome = false := by rw [h.tinv.alive]; rfl
  cases op with
  | register u =>
    simp only [step, ha, Bool.false_eq_true, ↓reduceIte]
    exact einv_register cfg s u h hpos
  | add sg l b t u =>
    simp only [step, ha, Bool.false_eq_true, ↓reduceIte] at t' ⊢
    exact h.same (gkSame_addAppointment s node sg l b t u) t'
  | get sg l => simp only [step, ha, Bool.false_eq_true, ↓reduceIte]; exact h
  | sub sg => simp only [step, ha, Bool.false_eq_true, ↓reduceIte]; exact h
  | connect b hgt txs =>
    simp only [step, ha, Bool.false_eq_true, ↓reduceIte] at t' ⊢
    unfold connectBlock at t' ⊢
    simp only at t' ⊢
    have e1 := einv_gkConnect cfg s hgt h he
    have g := (gkSame_watcherConnect (gkConnect cfg s hgt) node b hgt txs).trans
      (gkSame_respConnect (watcherConnect (gkConnect cfg s hgt) node b hgt txs).1 node b hgt txs)
    exact e1.same g t'
  | disconnect b hgt =>
    simp only [step, ha, Bool.false_eq_true, ↓reduceIte] at t' ⊢
    refine ⟨t', ?_, ?_⟩
    · intro u w hw
      have h0 := h.fresh u w hw
      have : (disconnectBlock s b hgt).mem.gkHeight = hgt - 1 := rfl
      rw [this]
      have he' : hgt - 1 ≤ s.mem.gkHeight := he
      omega
    · have : (disconnectBlock s b hgt).mem.gkHeight = hgt - 1 := rfl
      rw [this]
      have he' : hgt - 1 ≤ s.mem.gkHeight := he
      have := h.bound
      omega

def HistoryValidE (cfg : Cfg) : Tower → List (Node × Op) → Prop
  | _, [] => True
  | s, (node, op) :: rest => OpValid s op ∧ OpValidE s op ∧ HistoryValidE cfg (step cfg s node op).1 rest

theorem einv_history (cfg : Cfg) (hpos : 0 < cfg.duration + cfg.grace) : ∀ (hist : List (Node × Op)) (s : Tower),
    EInv cfg s → HistoryValidE cfg s hist → EInv cfg (runHistory cfg s hist)
  | [], _, h, _ => h
  | (node, op) :: rest, s, h, hv => by
    unfold runHistory
    exact einv_history cfg hpos rest _ (einv_step cfg s node op h hpos hv.1 hv.2.1) hv.2.2

theorem einv_boot (cfg : Cfg) (height : Nat) (blocks : List (Nat × List TxId)) (hnd : (blocks.map (·.1)).Nodup)
    (hh : height < u32Max) : EInv cfg (boot Db.empty height blocks) :=
  ⟨tinv_boot Db.empty height blocks DbInv.empty hnd, fun u w hw => by simp [window?, boot, Db.empty] at hw, hh⟩

end Teos
