/-
Generic deadlock freedom from a lock-rank discipline (core Lean only).
Threads are lists of events; a thread may acquire a lock only while every lock it holds has a
smaller rank. Then in every configuration with an unfinished thread some thread can step.
-/
namespace Teos.Conc

abbrev Lock := Nat

inductive Ev where
  | acq (l : Lock)
  | rel (l : Lock)
  | act (a : Nat)
deriving DecidableEq, Repr

structure Thr where
  held : List Lock
  rest : List Ev
deriving Repr

abbrev Cfg := List Thr

def heldBy (c : Cfg) (l : Lock) : Prop := ∃ t ∈ c, l ∈ t.held

def enabled (c : Cfg) (t : Thr) : Prop :=
  match t.rest with
  | [] => False
  | .acq l :: _ => ¬ heldBy c l
  | _ :: _ => True

/-- `respects rank held events`: every acquisition happens above everything held, and the thread
ends holding nothing -/
def respects (rank : Lock → Nat) : List Lock → List Ev → Prop
  | h, [] => h = []
  | h, .acq l :: r => (∀ x ∈ h, rank x < rank l) ∧ respects rank (l :: h) r
  | h, .rel l :: r => respects rank (h.erase l) r
  | h, .act _ :: r => respects rank h r

instance (rank : Lock → Nat) : ∀ (h : List Lock) (es : List Ev), Decidable (respects rank h es)
  | h, [] => by unfold respects; exact inferInstance
  | h, .acq l :: r => by
      unfold respects
      have := instDecidableRespects rank (l :: h) r
      exact inferInstance
  | h, .rel l :: r => by unfold respects; exact instDecidableRespects rank (h.erase l) r
  | h, .act _ :: r => by unfold respects; exact instDecidableRespects rank h r

def Good (rank : Lock → Nat) (c : Cfg) : Prop := ∀ t ∈ c, respects rank t.held t.rest

theorem exists_max {α : Type} (f : α → Nat) : ∀ (l : List α), l ≠ [] → ∃ a ∈ l, ∀ b ∈ l, f b ≤ f a
  | [], h => absurd rfl h
  | [a], _ => ⟨a, by simp, by simp⟩
  | a :: b :: r, _ => by
    obtain ⟨m, hm, hmax⟩ := exists_max f (b :: r) (by simp)
    by_cases h : f m ≤ f a
    · refine ⟨a, by simp, ?_⟩
      intro x hx
      rcases List.mem_cons.1 hx with rfl | hx
      · exact Nat.le_refl _
      · exact Nat.le_trans (hmax x hx) h
    · refine ⟨m, List.mem_cons_of_mem _ hm, ?_⟩
      intro x hx
      rcases List.mem_cons.1 hx with rfl | hx
      · omega
      · exact hmax x hx

def wants (t : Thr) : Option Lock :=
  match t.rest with
  | .acq l :: _ => some l
  | _ => none

theorem no_deadlock (rank : Lock → Nat) (c : Cfg) (hg : Good rank c)
    (hun : ∃ t ∈ c, t.rest ≠ []) : ∃ t ∈ c, enabled c t := by
  apply Classical.byContradiction
  intro hne
  have hne' : ∀ t ∈ c, ¬ enabled c t := fun t ht h => hne ⟨t, ht, h⟩
  have blocked : ∀ t ∈ c, t.rest ≠ [] → ∃ l r, t.rest = .acq l :: r ∧ heldBy c l := by
    intro t ht hr
    have := hne' t ht
    unfold enabled at this
    match hrest : t.rest with
    | [] => exact absurd hrest hr
    | .acq l :: r =>
      rw [hrest] at this
      exact ⟨l, r, rfl, Classical.not_not.1 this⟩
    | .rel l :: r => rw [hrest] at this; simp at this
    | .act a :: r => rw [hrest] at this; simp at this
  let us := c.filter (fun t => t.rest ≠ [])
  have hus : us ≠ [] := by
    obtain ⟨t, ht, hr⟩ := hun
    intro h
    have : t ∈ us := List.mem_filter.2 ⟨ht, by simpa using hr⟩
    rw [h] at this; cases this
  obtain ⟨m, hm, hmax⟩ := exists_max (fun t => match wants t with | some l => rank l | none => 0) us hus
  have hmc : m ∈ c := (List.mem_filter.1 hm).1
  have hmr : m.rest ≠ [] := by simpa using (List.mem_filter.1 hm).2
  obtain ⟨l, r, hl, t', ht'c, hlt'⟩ := blocked m hmc hmr
  have ht'r : t'.rest ≠ [] := by
    intro h
    have := hg t' ht'c
    rw [h] at this
    simp [respects] at this
    rw [this] at hlt'; cases hlt'
  obtain ⟨l', r', hl', _⟩ := blocked t' ht'c ht'r
  have hresp := hg t' ht'c
  rw [hl'] at hresp
  have hlt : rank l < rank l' := hresp.1 l hlt'
  have ht'us : t' ∈ us := List.mem_filter.2 ⟨ht'c, by simpa using ht'r⟩
  have := hmax t' ht'us
  simp [wants, hl, hl'] at this
  omega

/-- one scheduler step of thread number `i` -/
def stepThr (c : Cfg) (t : Thr) : Option Thr :=
  match t.rest with
  | [] => none
  | .acq l :: r => some { held := l :: t.held, rest := r }
  | .rel l :: r => some { held := t.held.erase l, rest := r }
  | .act _ :: r => some { held := t.held, rest := r }

/-- the discipline is preserved by every step, so `no_deadlock` applies to every reachable
configuration, whatever the schedule and however many threads -/
theorem step_preserves_respects (rank : Lock → Nat) (t t' : Thr) (c : Cfg)
    (h : respects rank t.held t.rest) (hs : stepThr c t = some t') : respects rank t'.held t'.rest := by
  unfold stepThr at hs
  match hrest : t.rest with
  | [] => rw [hrest] at hs; cases hs
  | .acq l :: r => rw [hrest] at hs h; cases hs; exact h.2
  | .rel l :: r => rw [hrest] at hs h; cases hs; exact h
  | .act a :: r => rw [hrest] at hs h; cases hs; exact h

end Teos.Conc
