/-
Lemmas for the plugin model: what a client operation can do to the record of one
(tower, locator) pair. Core Lean only.
-/
import TeosVerif.Lemmas.Client
import TeosVerif.Model.Plugin

namespace Teos.Client

/-- the appointment `l` is durably recorded for tower `t`: accepted (receipt), pending or
invalid -/
def recorded (s : Store) (t : TowerId) (l : Loc) : Prop :=
  (s.rcpts t l).isSome = true ∨ (t, l) ∈ s.pending ∨ (t, l) ∈ s.invalid

/-- a successful store write that only adds or overwrites rows -/
inductive Added (s : Store) : Store → Prop where
  | nothing : Added s s
  | reg {t a r s'} : s.storeTowerRecord t a r = some s' → Added s s'
  | rcpt {t l n r s'} : s.storeApptReceipt t l n r = some s' → Added s s'
  | pend {t l b s'} : s.storePending t l b = some s' → Added s s'
  | inval {t l b s'} : s.storeInvalid t l b = some s' → Added s s'
  | proof {t p r s'} : s.storeProof t p r = some s' → Added s s'

/-- additive writes never remove a record -/
theorem Added.recorded {s s' : Store} (h : Added s s') {t : TowerId} {l : Loc}
    (hr : recorded s t l) : recorded s' t l := by
  cases h with
  | nothing => exact hr
  | reg h =>
    unfold Store.storeTowerRecord at h
    split at h
    · cases h
    · simp only [Option.some.injEq] at h; subst h; exact hr
  | rcpt h =>
    unfold Store.storeApptReceipt at h
    split at h
    · simp only [Option.some.injEq] at h; subst h
      rcases hr with hr | hr | hr
      · left; simp only; split <;> simp [hr]
      · right; left; exact hr
      · right; right; exact hr
    · cases h
  | pend h =>
    unfold Store.storePending at h
    split at h
    · cases h
    · simp only [Option.some.injEq] at h; subst h
      rcases hr with hr | hr | hr
      · left; simpa using hr
      · right; left; simp [hr]
      · right; right; simpa using hr
  | inval h =>
    unfold Store.storeInvalid at h
    split at h
    · cases h
    · simp only [Option.some.injEq] at h; subst h
      rcases hr with hr | hr | hr
      · left; simpa using hr
      · right; left; simpa using hr
      · right; right; simp [hr]
  | proof h =>
    unfold Store.storeProof at h
    split at h
    · simp only [Option.some.injEq] at h; subst h
      rcases hr with hr | hr | hr
      · left; simp only; split <;> simp [hr]
      · right; left; exact hr
      · right; right; exact hr
    · cases h

/-- every operation other than a release and an abandon is an additive write (or nothing) -/
theorem step_added (c : Client) (op : Op) (h1 : ∀ t l, op ≠ .unpend t l) (h2 : ∀ t, op ≠ .abandon t) :
    Added c.store (c.step op).1.store := by
  unfold Client.step
  cases op with
  | reload => exact .nothing
  | register x a r =>
    by_cases hd : c.dead = true
    · simp only [hd, ↓reduceIte]; exact .nothing
    · simp only [hd, Bool.false_eq_true, ↓reduceIte]
      unfold Client.addUpdateTower Client.panic Client.setSummary
      split
      · split
        · exact .nothing
        · rename_i st hst; exact .reg hst
      · split
        · exact .nothing
        · split
          · exact .nothing
          · split
            · exact .nothing
            · split
              · exact .nothing
              · rename_i st hst; exact .reg hst
  | receipt x l s r =>
    by_cases hd : c.dead = true
    · simp only [hd, ↓reduceIte]; exact .nothing
    · simp only [hd, Bool.false_eq_true, ↓reduceIte]
      unfold Client.addReceipt Client.panic Client.setSummary
      split
      · exact .nothing
      · split
        · exact .nothing
        · rename_i st hst; exact .rcpt hst
  | pending x l b =>
    by_cases hd : c.dead = true
    · simp only [hd, ↓reduceIte]; exact .nothing
    · simp only [hd, Bool.false_eq_true, ↓reduceIte]
      unfold Client.addPending Client.panic Client.setSummary
      split
      · exact .nothing
      · split
        · exact .nothing
        · split
          · exact .nothing
          · rename_i st hst; exact .pend hst
  | unpend x l => exact absurd rfl (h1 x l)
  | invalid x l b =>
    by_cases hd : c.dead = true
    · simp only [hd, ↓reduceIte]; exact .nothing
    · simp only [hd, Bool.false_eq_true, ↓reduceIte]
      unfold Client.addInvalid Client.panic Client.setSummary
      split
      · exact .nothing
      · split
        · exact .nothing
        · split
          · exact .nothing
          · rename_i st hst; exact .inval hst
  | misbehaving x p r =>
    by_cases hd : c.dead = true
    · simp only [hd, ↓reduceIte]; exact .nothing
    · simp only [hd, Bool.false_eq_true, ↓reduceIte]
      unfold Client.flagMisbehaving Client.panic Client.setSummary
      split
      · exact .nothing
      · split
        · exact .nothing
        · split
          · exact .nothing
          · rename_i st hst; exact .proof hst
  | abandon x => exact absurd rfl (h2 x)
  | status x s =>
    by_cases hd : c.dead = true
    · simp only [hd, ↓reduceIte]; exact .nothing
    · simp only [hd, Bool.false_eq_true, ↓reduceIte]
      unfold Client.setStatus Client.setSummary
      split
      · split <;> exact .nothing
      · exact .nothing

/-- a release of `(t', l')` only ever removes the *pending* row of `(t', l')` -/
theorem deletePending_recorded (s : Store) (t' : TowerId) (l' : Loc) (t : TowerId) (l : Loc)
    (hr : recorded s t l)
    (hg : (t', l') = (t, l) → (s.rcpts t l).isSome = true ∨ (t, l) ∈ s.invalid) :
    recorded (s.deletePending t' l') t l := by
  unfold recorded
  rw [deletePending_rcpts, deletePending_invalid, deletePending_pending]
  by_cases e : (t', l') = (t, l)
  · rcases hg e with h | h
    · left; exact h
    · right; right; exact h
  · rcases hr with h | h | h
    · left; exact h
    · right; left
      simp only [List.mem_filter, ne_eq, decide_eq_true_eq]
      exact ⟨h, fun e2 => e e2.symm⟩
    · right; right; exact h

/-- abandoning another tower does not touch the record -/
theorem removeTowerRecord_recorded (s : Store) (t' t : TowerId) (l : Loc) (hne : t' ≠ t)
    (hr : recorded s t l) : recorded (s.removeTowerRecord t') t l := by
  unfold recorded Store.removeTowerRecord
  have hne' : ¬ t = t' := fun e => hne e.symm
  rcases hr with h | h | h
  · left; simp [hne', h]
  · right; left
    simp only [List.mem_filter, ne_eq, decide_eq_true_eq]
    exact ⟨h, hne'⟩
  · right; right
    simp only [List.mem_filter, ne_eq, decide_eq_true_eq]
    exact ⟨h, hne'⟩

end Teos.Client

namespace Teos.Client

/-- one client operation keeps the record of `(t, l)` unless it abandons `t`, or releases that
very pair while a pending row is all there is -/
theorem recorded_step (c : Client) (op : Op) (t : TowerId) (l : Loc)
    (hr : recorded c.store t l) (hab : op ≠ .abandon t)
    (hun : op = .unpend t l → (c.store.rcpts t l).isSome = true ∨ (t, l) ∈ c.store.invalid) :
    recorded (c.step op).1.store t l := by
  cases op with
  | unpend x y =>
    unfold Client.step
    by_cases hd : c.dead = true
    · simp only [hd, ↓reduceIte]; exact hr
    · simp only [hd, Bool.false_eq_true, ↓reduceIte]
      unfold Client.removePending Client.setSummary
      split
      · exact hr
      · refine deletePending_recorded c.store x y t l hr ?_
        intro e
        simp only [Prod.mk.injEq] at e
        obtain ⟨e1, e2⟩ := e
        subst e1; subst e2
        exact hun rfl
  | abandon x =>
    have hne : x ≠ t := fun e => hab (by rw [e])
    unfold Client.step
    by_cases hd : c.dead = true
    · simp only [hd, ↓reduceIte]; exact hr
    · simp only [hd, Bool.false_eq_true, ↓reduceIte]
      unfold Client.removeTower
      split
      · exact hr
      · exact removeTowerRecord_recorded c.store x t l hne hr
  | reload => exact (step_added c .reload (by intro _ _ h; cases h) (by intro _ h; cases h)).recorded hr
  | register x a r => exact (step_added c _ (by intro _ _ h; cases h) (by intro _ h; cases h)).recorded hr
  | receipt x y s r => exact (step_added c _ (by intro _ _ h; cases h) (by intro _ h; cases h)).recorded hr
  | pending x y b => exact (step_added c _ (by intro _ _ h; cases h) (by intro _ h; cases h)).recorded hr
  | invalid x y b => exact (step_added c _ (by intro _ _ h; cases h) (by intro _ h; cases h)).recorded hr
  | misbehaving x p r => exact (step_added c _ (by intro _ _ h; cases h) (by intro _ h; cases h)).recorded hr
  | status x s => exact (step_added c _ (by intro _ _ h; cases h) (by intro _ h; cases h)).recorded hr

/-! ### what the recording operations guarantee in a consistent client -/

theorem addReceipt_recorded {c : Client} (h : Inv c) {t : TowerId} {sm : Summary}
    (ht : c.towers t = some sm) (l : Loc) (n : Nat) (r : ApptReceipt) :
    ((c.addReceipt t l n r).1.store.rcpts t l).isSome = true := by
  obtain ⟨row, _, a1, _⟩ := h.sync_some t sm ht
  unfold Client.addReceipt Store.storeApptReceipt Client.setSummary
  simp [ht, a1]

theorem addPending_recorded {c : Client} (h : Inv c) {t : TowerId} {sm : Summary}
    (ht : c.towers t = some sm) (l : Loc) (b : Body) :
    (t, l) ∈ (c.addPending t l b).1.store.pending := by
  obtain ⟨row, r, a1, a2, a3, a4, a5, a6, a7, a8, a9⟩ := h.sync_some t sm ht
  unfold Client.addPending
  simp only [ht]
  by_cases hc : sm.pending.contains l = true
  · simp only [hc, ↓reduceIte]
    rw [a7, List.contains_iff_mem] at hc
    exact (mem_locsOf _ _ _).mp hc
  · simp only [hc, Bool.false_eq_true, ↓reduceIte]
    have hnp : c.store.isPending t l = false := by
      unfold Store.isPending
      rw [← contains_locsOf, ← a7]; simpa using hc
    unfold Store.storePending Client.setSummary
    simp [a1, hnp]

theorem addInvalid_recorded {c : Client} (h : Inv c) {t : TowerId} {sm : Summary}
    (ht : c.towers t = some sm) (l : Loc) (b : Body) :
    (t, l) ∈ (c.addInvalid t l b).1.store.invalid := by
  obtain ⟨row, r, a1, a2, a3, a4, a5, a6, a7, a8, a9⟩ := h.sync_some t sm ht
  unfold Client.addInvalid
  simp only [ht]
  by_cases hc : sm.invalid.contains l = true
  · simp only [hc, ↓reduceIte]
    rw [a8, List.contains_iff_mem] at hc
    exact (mem_locsOf _ _ _).mp hc
  · simp only [hc, Bool.false_eq_true, ↓reduceIte]
    have hnp : c.store.isInvalid t l = false := by
      unfold Store.isInvalid
      rw [← contains_locsOf, ← a8]; simpa using hc
    unfold Store.storeInvalid Client.setSummary
    simp [a1, hnp]

theorem setStatus_towers (c : Client) (t : TowerId) (st : TStatus) (x : TowerId) :
    ((c.setStatus t st).towers x).isSome = (c.towers x).isSome := by
  unfold Client.setStatus
  cases ht : c.towers t with
  | none => rfl
  | some sm =>
    simp only
    split
    · rfl
    · unfold Client.setSummary
      by_cases e : x = t
      · subst e; simp [ht]
      · simp [e]

@[simp] theorem setStatus_store (c : Client) (t : TowerId) (st : TStatus) :
    (c.setStatus t st).store = c.store := by
  unfold Client.setStatus
  cases c.towers t with
  | none => rfl
  | some sm => simp only; split <;> rfl

theorem flagMisbehaving_status {c : Client} (h : Inv c) {t : TowerId} {sm : Summary}
    (ht : c.towers t = some sm) (p : Proof) (r : ApptReceipt) :
    ((c.flagMisbehaving t p r).1.towers t).map (·.status) = some .misbehaving ∧
    ((c.flagMisbehaving t p r).1.store.proofs t).isSome = true := by
  obtain ⟨row, r0, a1, a2, a3, a4, a5, a6, a7, a8, a9⟩ := h.sync_some t sm ht
  unfold Client.flagMisbehaving
  simp only [ht]
  by_cases hm : sm.status = .misbehaving
  · simp only [hm, ↓reduceIte, ht, Option.map_some]
    exact ⟨by simp [hm], a9.mp hm⟩
  · simp only [hm, ↓reduceIte]
    have hnp : c.store.proofs t = none := by
      cases hp : c.store.proofs t with
      | none => rfl
      | some q => exact absurd (a9.mpr (by simp [hp])) hm
    unfold Store.storeProof Client.setSummary
    simp [a1, hnp]

end Teos.Client

namespace Teos.Plugin
open Teos.Client

/-- `c'` comes from a consistent `c` by operations that keep it consistent, keep every tower,
every record and every misbehaviour proof -/
structure Keeps (c c' : Client) : Prop where
  inv : Inv c → Inv c'
  known : Inv c → ∀ t, (c.towers t).isSome = true → (c'.towers t).isSome = true
  recd : Inv c → ∀ t l, recorded c.store t l → recorded c'.store t l
  flagd : Inv c → ∀ t, (c.store.proofs t).isSome = true → (c'.store.proofs t).isSome = true

theorem Keeps.refl (c : Client) : Keeps c c := ⟨id, fun _ _ h => h, fun _ _ _ h => h, fun _ _ h => h⟩

theorem Keeps.trans {a b c : Client} (h1 : Keeps a b) (h2 : Keeps b c) : Keeps a c :=
  ⟨fun h => h2.inv (h1.inv h), fun h t hk => h2.known (h1.inv h) t (h1.known h t hk),
   fun h t l hr => h2.recd (h1.inv h) t l (h1.recd h t l hr),
   fun h t hp => h2.flagd (h1.inv h) t (h1.flagd h t hp)⟩

/-- additive writes keep proofs -/
theorem Added.flag {s s' : Store} (h : Added s s') {t : TowerId}
    (hp : (s.proofs t).isSome = true) : (s'.proofs t).isSome = true := by
  cases h with
  | nothing => exact hp
  | reg h =>
    unfold Store.storeTowerRecord at h
    split at h
    · cases h
    · simp only [Option.some.injEq] at h; subst h; exact hp
  | rcpt h =>
    unfold Store.storeApptReceipt at h
    split at h
    · simp only [Option.some.injEq] at h; subst h; exact hp
    · cases h
  | pend h =>
    unfold Store.storePending at h
    split at h
    · cases h
    · simp only [Option.some.injEq] at h; subst h; simpa using hp
  | inval h =>
    unfold Store.storeInvalid at h
    split at h
    · cases h
    · simp only [Option.some.injEq] at h; subst h; simpa using hp
  | proof h =>
    unfold Store.storeProof at h
    split at h
    · simp only [Option.some.injEq] at h; subst h
      simp only; split <;> simp [hp]
    · cases h

theorem setSummary_known (c : Client) (x : TowerId) (sm : Summary) (t : TowerId)
    (hk : (c.towers t).isSome = true) : ((c.setSummary x sm).towers t).isSome = true := by
  unfold Client.setSummary
  by_cases e : t = x
  · simp [e]
  · simp [e, hk]

/-- each mutator other than `remove_tower` leaves at least the same towers in the listing -/
theorem addUpdateTower_known (c : Client) (x : TowerId) (a : Nat) (r : RegReceipt) (t : TowerId)
    (hk : (c.towers t).isSome = true) : ((c.addUpdateTower x a r).1.towers t).isSome = true := by
  unfold Client.addUpdateTower Client.panic
  repeat' split
  all_goals first
    | exact hk
    | exact setSummary_known _ _ _ _ hk

theorem addReceipt_known (c : Client) (x : TowerId) (l : Loc) (n : Nat) (r : ApptReceipt) (t : TowerId)
    (hk : (c.towers t).isSome = true) : ((c.addReceipt x l n r).1.towers t).isSome = true := by
  unfold Client.addReceipt Client.panic
  repeat' split
  all_goals first
    | exact hk
    | exact setSummary_known _ _ _ _ hk

theorem addPending_known (c : Client) (x : TowerId) (l : Loc) (b : Body) (t : TowerId)
    (hk : (c.towers t).isSome = true) : ((c.addPending x l b).1.towers t).isSome = true := by
  unfold Client.addPending Client.panic
  repeat' split
  all_goals first
    | exact hk
    | exact setSummary_known _ _ _ _ hk

theorem addInvalid_known (c : Client) (x : TowerId) (l : Loc) (b : Body) (t : TowerId)
    (hk : (c.towers t).isSome = true) : ((c.addInvalid x l b).1.towers t).isSome = true := by
  unfold Client.addInvalid Client.panic
  repeat' split
  all_goals first
    | exact hk
    | exact setSummary_known _ _ _ _ hk

theorem removePending_known (c : Client) (x : TowerId) (l : Loc) (t : TowerId)
    (hk : (c.towers t).isSome = true) : ((c.removePending x l).1.towers t).isSome = true := by
  unfold Client.removePending
  repeat' split
  all_goals first
    | exact hk
    | exact setSummary_known _ _ _ _ hk

theorem flagMisbehaving_known (c : Client) (x : TowerId) (p : Proof) (r : ApptReceipt) (t : TowerId)
    (hk : (c.towers t).isSome = true) : ((c.flagMisbehaving x p r).1.towers t).isSome = true := by
  unfold Client.flagMisbehaving Client.panic
  repeat' split
  all_goals first
    | exact hk
    | exact setSummary_known _ _ _ _ hk

end Teos.Plugin

namespace Teos.Plugin
open Teos.Client

theorem keeps_additive {c c' : Client} (op : Op)
    (hstep : c.dead = false → (c.step op).1 = c')
    (hinv : Inv c → Inv c')
    (hknown : ∀ t, (c.towers t).isSome = true → (c'.towers t).isSome = true)
    (h1 : ∀ t l, op ≠ .unpend t l) (h2 : ∀ t, op ≠ .abandon t) : Keeps c c' :=
  ⟨hinv, fun _ => hknown,
   fun h t l hr => by rw [← hstep h.alive]; exact (step_added c op h1 h2).recorded hr,
   fun h t hp => by rw [← hstep h.alive]; exact Added.flag (step_added c op h1 h2) hp⟩

theorem keeps_addReceipt (c : Client) (t : TowerId) (l : Loc) (n : Nat) (r : ApptReceipt) :
    Keeps c (c.addReceipt t l n r).1 :=
  keeps_additive (.receipt t l n r) (fun h => by unfold Client.step; simp [h])
    (fun h => h.addReceipt t l n r) (addReceipt_known c t l n r)
    (by intro _ _ h; cases h) (by intro _ h; cases h)

theorem keeps_addPending (c : Client) (t : TowerId) (l : Loc) (b : Body) :
    Keeps c (c.addPending t l b).1 :=
  keeps_additive (.pending t l b) (fun h => by unfold Client.step; simp [h])
    (fun h => h.addPending t l b) (addPending_known c t l b)
    (by intro _ _ h; cases h) (by intro _ h; cases h)

theorem keeps_addInvalid (c : Client) (t : TowerId) (l : Loc) (b : Body) :
    Keeps c (c.addInvalid t l b).1 :=
  keeps_additive (.invalid t l b) (fun h => by unfold Client.step; simp [h])
    (fun h => h.addInvalid t l b) (addInvalid_known c t l b)
    (by intro _ _ h; cases h) (by intro _ h; cases h)

theorem keeps_flag (c : Client) (t : TowerId) (p : Proof) (r : ApptReceipt) :
    Keeps c (c.flagMisbehaving t p r).1 :=
  keeps_additive (.misbehaving t p r) (fun h => by unfold Client.step; simp [h])
    (fun h => h.flagMisbehaving t p r) (flagMisbehaving_known c t p r)
    (by intro _ _ h; cases h) (by intro _ h; cases h)

theorem keeps_register (c : Client) (t : TowerId) (a : Nat) (r : RegReceipt) :
    Keeps c (c.addUpdateTower t a r).1 :=
  keeps_additive (.register t a r) (fun h => by unfold Client.step; simp [h])
    (fun h => h.addUpdateTower t a r) (addUpdateTower_known c t a r)
    (by intro _ _ h; cases h) (by intro _ h; cases h)

theorem keeps_setStatus (c : Client) (t : TowerId) (st : TStatus) (hst : st ≠ .misbehaving) :
    Keeps c (c.setStatus t st) :=
  ⟨fun h => h.setStatus t st hst,
   fun _ x hk => by rw [setStatus_towers]; exact hk,
   fun _ _ _ hr => by rw [setStatus_store]; exact hr,
   fun _ _ hp => by rw [setStatus_store]; exact hp⟩

theorem keeps_reload (c : Client) : Keeps c c.reload :=
  ⟨fun h => Inv.reload h.wf,
   fun h t hk => by
     cases hs : c.towers t with
     | none => rw [hs] at hk; cases hk
     | some sm =>
       obtain ⟨row, r, a1, a2, _⟩ := h.sync_some t sm hs
       simp [Client.reload, Store.loadSummary, a1, a2],
   fun _ _ _ hr => hr, fun _ _ hp => hp⟩

end Teos.Plugin

namespace Teos.Plugin
open Teos.Client

theorem removePending_proofs (c : Client) (t : TowerId) (l : Loc) :
    (c.removePending t l).1.store.proofs = c.store.proofs := by
  unfold Client.removePending
  split
  · rfl
  · simp [Client.setSummary, deletePending_proofs]

/-- a release right after the same pair got its receipt (or its rejection) loses nothing:
"add the new record before deleting the old" -/
theorem keeps_release_after {c : Client} (t : TowerId) (l : Loc)
    (hguard : Inv c → (c.towers t).isSome = true →
      (c.store.rcpts t l).isSome = true ∨ (t, l) ∈ c.store.invalid) :
    Keeps c (c.removePending t l).1 :=
  ⟨fun h => h.removePending t l,
   fun _ => removePending_known c t l,
   fun h x y hr => by
     have hs : (c.step (.unpend t l)).1 = (c.removePending t l).1 := by
       unfold Client.step; simp [h.alive]
     rw [← hs]
     refine recorded_step c (.unpend t l) x y hr (by intro e; cases e) ?_
     intro e
     simp only [Op.unpend.injEq] at e
     obtain ⟨e1, e2⟩ := e
     subst e1; subst e2
     cases hk : c.towers t with
     | some sm => exact hguard h (by simp [hk])
     | none =>
       -- the tower is unknown: nothing of it is recorded
       have hn := h.sync_none t hk
       rcases hr with hr | hr | hr
       · rw [h.wf.gone_rcpts t l hn] at hr; cases hr
       · exact absurd hn (h.wf.fk_pending t l hr)
       · exact absurd hn (h.wf.fk_invalid t l hr),
   fun h x hp => by
     unfold Client.removePending
     split
     · exact hp
     · simpa [Client.setSummary, deletePending_proofs] using hp⟩

theorem addReceipt_known_rev (c : Client) (x : TowerId) (l : Loc) (n : Nat) (r : ApptReceipt)
    (hk : ((c.addReceipt x l n r).1.towers x).isSome = true) : (c.towers x).isSome = true := by
  unfold Client.addReceipt at hk
  cases hx : c.towers x with
  | none => simp [hx] at hk
  | some sm => rfl

theorem addInvalid_known_rev (c : Client) (x : TowerId) (l : Loc) (b : Body)
    (hk : ((c.addInvalid x l b).1.towers x).isSome = true) : (c.towers x).isSome = true := by
  unfold Client.addInvalid at hk
  cases hx : c.towers x with
  | none => simp [hx] at hk
  | some sm => rfl

theorem keeps_move_accepted (c : Client) (t : TowerId) (l : Loc) :
    Keeps c ((c.addReceipt t l 0 rcpt).1.removePending t l).1 := by
  have k1 := keeps_addReceipt c t l 0 rcpt
  refine ⟨fun h => (h.addReceipt t l 0 rcpt).removePending t l,
    fun h x hk => removePending_known _ t l x (addReceipt_known c t l 0 rcpt x hk), ?_, ?_⟩
  · intro h x y hr
    have k2 : Keeps (c.addReceipt t l 0 rcpt).1 ((c.addReceipt t l 0 rcpt).1.removePending t l).1 :=
      keeps_release_after t l (fun _ hk1 => by
        left
        have hk0 := addReceipt_known_rev c t l 0 rcpt hk1
        cases hs : c.towers t with
        | none => rw [hs] at hk0; cases hk0
        | some sm => exact addReceipt_recorded h hs l 0 rcpt)
    exact k2.recd (k1.inv h) x y (k1.recd h x y hr)
  · intro h x hp
    rw [removePending_proofs]
    exact k1.flagd h x hp

theorem keeps_move_rejected (c : Client) (t : TowerId) (l : Loc) :
    Keeps c ((c.addInvalid t l body).1.removePending t l).1 := by
  have k1 := keeps_addInvalid c t l body
  refine ⟨fun h => (h.addInvalid t l body).removePending t l,
    fun h x hk => removePending_known _ t l x (addInvalid_known c t l body x hk), ?_, ?_⟩
  · intro h x y hr
    have k2 : Keeps (c.addInvalid t l body).1 ((c.addInvalid t l body).1.removePending t l).1 :=
      keeps_release_after t l (fun _ hk1 => by
        right
        have hk0 := addInvalid_known_rev c t l body hk1
        cases hs : c.towers t with
        | none => rw [hs] at hk0; cases hk0
        | some sm => exact addInvalid_recorded h hs l body)
    exact k2.recd (k1.inv h) x y (k1.recd h x y hr)
  · intro h x hp
    rw [removePending_proofs]
    exact k1.flagd h x hp

end Teos.Plugin

namespace Teos.Plugin
open Teos.Client

theorem keeps_sendAll (t : TowerId) (o : Outcome) : ∀ (locs : List Loc) (c : Client),
    Keeps c (sendAll c t o locs).1 := by
  intro locs
  induction locs with
  | nil => intro c; exact Keeps.refl c
  | cons l ls ih =>
    intro c
    cases o with
    | accepted => simp only [sendAll]; exact (keeps_move_accepted c t l).trans (ih _)
    | rejected => simp only [sendAll]; exact (keeps_move_rejected c t l).trans (ih _)
    | connErr => simp only [sendAll]; exact Keeps.refl c
    | unparsable => simp only [sendAll]; exact Keeps.refl c
    | subErr => simp only [sendAll]; exact keeps_setStatus c t _ (by intro h; cases h)
    | wrongSigner => simp only [sendAll]; exact keeps_flag c t _ _

theorem towerRegisters_client (s : St) (t : TowerId) : (s.towerRegisters t).client = s.client := by
  unfold St.towerRegisters; split <;> rfl

theorem keeps_recordRegistration (s : St) (t : TowerId) :
    Keeps s.client (s.recordRegistration t).client := by
  unfold St.recordRegistration
  exact keeps_register s.client t t _

theorem keeps_reRegister (s : St) (t : TowerId) : Keeps s.client (reRegister s t).1.client := by
  unfold reRegister
  split
  · split
    · exact Keeps.refl _
    · split
      · exact Keeps.refl _
      · simp only [towerRegisters_client]; exact Keeps.refl _
      · split
        · have := keeps_recordRegistration (s.towerRegisters t) t
          rw [towerRegisters_client] at this
          exact this
        · simp only [towerRegisters_client]; exact Keeps.refl _
  · exact Keeps.refl _

theorem consume_client (s : St) (t : TowerId) : (s.consume t).client = s.client := by
  unfold St.consume; split <;> rfl

theorem consumeIf_client (s : St) (b : Bool) (t : TowerId) : (s.consumeIf b t).client = s.client := by
  unfold St.consumeIf; split
  · exact consume_client s t
  · rfl

theorem keeps_runOnce (s : St) (t : TowerId) (locs : List Loc) :
    Keeps s.client (runOnce s t locs).1.client := by
  unfold runOnce
  have k := keeps_reRegister s t
  split
  · rename_i s1 r heq
    rw [heq] at k; exact k
  · rename_i s1 heq
    rw [heq] at k
    simp only [consume_client, St.withClient]
    exact k.trans (keeps_sendAll t _ locs _)

theorem keeps_runRetrier (t : TowerId) (locs : List Loc) : ∀ (fuel : Nat) (s : St),
    Keeps s.client (runRetrier fuel s t locs).1.client := by
  intro fuel
  induction fuel with
  | zero => intro s; exact Keeps.refl _
  | succ n ih =>
    intro s
    simp only [runRetrier]
    have k1 := keeps_runOnce s t locs
    split
    · exact k1.trans (ih _)
    · exact k1

theorem keeps_retryRun (s : St) (t : TowerId) (locs : List Loc) :
    Keeps s.client (s.retryRun t locs).client := by
  unfold St.retryRun
  split
  · exact Keeps.refl _
  · split
    · exact Keeps.refl _
    · rename_i st hst
      simp only
      have k0 : Keeps s.client
          (if st = TStatus.subscriptionError then s
            else s.withClient (s.client.setStatus t TStatus.tempUnreachable)).client := by
        split
        · exact Keeps.refl _
        · exact keeps_setStatus _ t _ (by intro h; cases h)
      have k1 := keeps_runRetrier t locs 4
        (if st = TStatus.subscriptionError then s
          else s.withClient (s.client.setStatus t TStatus.tempUnreachable))
      split
      · exact (k0.trans k1).trans (keeps_setStatus _ t _ (by intro h; cases h))
      · exact (k0.trans k1).trans (keeps_setStatus _ t _ (by intro h; cases h))
      · exact (k0.trans k1).trans (keeps_setStatus _ t _ (by intro h; cases h))
      · exact k0.trans k1

theorem keeps_retry (s : St) (t : TowerId) (locs : List Loc) :
    Keeps s.client (s.retry t locs).client := by
  unfold St.retry
  split
  · exact keeps_setStatus _ t _ (by intro h; cases h)
  · exact keeps_retryRun s t locs

end Teos.Plugin

namespace Teos.Plugin
open Teos.Client

theorem keeps_hookTower (s : St) (t : TowerId) (l : Loc) :
    Keeps s.client (hookTower s t l).1.client := by
  unfold hookTower
  split
  · exact Keeps.refl _
  · split
    · exact Keeps.refl _
    · split
      · exact Keeps.refl _
      · split
        · exact keeps_addReceipt _ t l 0 rcpt
        · exact (keeps_setStatus _ t _ (by intro h; cases h)).trans (keeps_addPending _ t l body)
        · exact (keeps_setStatus _ t _ (by intro h; cases h)).trans (keeps_addPending _ t l body)
        · exact (keeps_setStatus _ t _ (by intro h; cases h)).trans (keeps_addPending _ t l body)
        · exact keeps_addInvalid _ t l body
        · exact keeps_flag _ t _ _
      · exact keeps_addPending _ t l body
      · exact keeps_addPending _ t l body
      · exact keeps_addPending _ t l body

theorem keeps_notifyTower (s : St) (t : TowerId) (l : Loc) :
    Keeps s.client (notifyTower s t l).client := by
  unfold notifyTower
  have k := keeps_hookTower s t l
  split
  · rename_i s1 heq; rw [heq] at k
    split
    · exact k
    · have := keeps_retry (s1.consumeIf (asked s t l) t) t (s1.pendingOf t)
      rw [consumeIf_client] at this
      exact k.trans this
  · rename_i s1 heq; rw [heq] at k
    rw [consumeIf_client]; exact k

theorem keeps_foldl {α : Type} (f : St → α → St) (hf : ∀ s a, Keeps s.client (f s a).client) :
    ∀ (xs : List α) (s : St), Keeps s.client (xs.foldl f s).client := by
  intro xs
  induction xs with
  | nil => intro s; exact Keeps.refl _
  | cons x xs ih => intro s; exact (hf s x).trans (ih _)

theorem keeps_notify (s : St) (l : Loc) : Keeps s.client (s.notify l).client :=
  keeps_foldl _ (fun s a => keeps_notifyTower s a l) _ _

theorem grow_client (s : St) (t : TowerId) : (s.grow t).client = s.client := by
  unfold St.grow; split <;> rfl

theorem keeps_registerCore (s : St) (t : TowerId) : Keeps s.client (s.registerCore t).1.client := by
  unfold St.registerCore
  split
  · split
    · exact keeps_setStatus _ t _ (by intro h; cases h)
    · exact Keeps.refl _
  · split
    · exact Keeps.refl _
    · simp only [towerRegisters_client]; exact Keeps.refl _
    · split
      · have := keeps_recordRegistration (s.towerRegisters t) t
        rw [towerRegisters_client] at this
        exact this
      · simp only [towerRegisters_client]; exact Keeps.refl _

theorem keeps_registerCmd (s : St) (t : TowerId) : Keeps s.client (s.register t).1.client := by
  unfold St.register
  have := keeps_registerCore (s.grow t) t
  rw [grow_client] at this
  exact this

theorem keeps_manualRetry (s : St) (t : TowerId) : Keeps s.client (s.manualRetry t).1.client := by
  unfold St.manualRetry
  split
  · exact Keeps.refl _
  · split
    · exact Keeps.refl _
    · split
      · exact keeps_retry (s.wake t) t _
      · split
        · exact keeps_retry _ t _
        · exact Keeps.refl _

theorem keeps_restartTower (s : St) (t : TowerId) : Keeps s.client (restartTower s t).client := by
  unfold restartTower
  split
  · exact keeps_retry _ t _
  · exact Keeps.refl _

theorem keeps_restart (s : St) : Keeps s.client s.restart.client := by
  unfold St.restart
  exact (keeps_reload s.client).trans (keeps_foldl _ keeps_restartTower _ s.reloaded)

theorem keeps_retry' (s s' : St) (h : s'.client = s.client) (t : TowerId) (locs : List Loc) :
    Keeps s.client (s'.retry t locs).client := by
  rw [← h]; exact keeps_retry s' t locs

theorem keeps_release (s : St) (t : TowerId) (m : AddMode) : Keeps s.client (s.release t m).client := by
  unfold St.release
  simp only
  split
  · refine keeps_retry' s _ ?_ t _
    rfl
  · exact Keeps.refl _

theorem keeps_holdTurn (t : TowerId) (l : Loc) (acc : St) (x : TowerId) :
    Keeps acc.client (holdTurn t l acc x).client := by
  unfold holdTurn
  split
  · have kh := keeps_hookTower acc t l
    generalize hookTower acc t l = r at kh
    obtain ⟨s1, start⟩ := r
    simp only at kh ⊢
    split
    · refine kh.trans (keeps_retry' s1 _ ?_ t _)
      rfl
    · exact kh
  · exact keeps_notifyTower acc x l

theorem keeps_holdAfter (s : St) (t : TowerId) (l : Loc) : Keeps s.client (s.holdAfter t l).client := by
  unfold St.holdAfter
  simp only
  have k := keeps_foldl (holdTurn t l) (fun a x => keeps_holdTurn t l a x) (List.range s.n)
    { s with beh := fun x => if x = t then { s.beh t with down := true, hold := true } else s.beh x }
  exact k

/-- every event except an abandon keeps the client consistent, every tower listed, every
record and every proof -/
theorem keeps_step (s : St) (ev : Ev) (hab : ∀ t, ev ≠ .abandon t) :
    Keeps s.client (s.step ev).1.client := by
  cases ev with
  | register t => exact keeps_registerCmd s t
  | notify l => exact keeps_notify s l
  | setBeh t b => exact Keeps.refl _
  | retry t => exact keeps_manualRetry s t
  | abandon t => exact absurd rfl (hab t)
  | restart => exact keeps_restart s
  | release t m => exact keeps_release s t m
  | holdAfter t l => exact keeps_holdAfter s t l

end Teos.Plugin
