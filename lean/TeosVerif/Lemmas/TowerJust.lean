/-
Lemmas for C02 at the level of whole histories: every tracker the tower holds, and every transaction
it hands to the node, is justified by an appointment it holds (or is accepting in this very request)
and a dispute transaction it has seen in a connected block.

`Just s seen` is the invariant; `Ok s seen s' log` says that going from `s` to `s'` kept it, created no
appointment, and that every `sendrawtransaction` in `log` is justified by what `s` held.
Core Lean only.
-/
import TeosVerif.Lemmas.Tower

namespace Teos
open TxIndex

/-! ### the invariant -/

/-- every tracker row has its appointment row, whose blob decrypts under the tracker's dispute id to
the tracker's penalty; the dispute has been seen in a connected block and carries the row's locator -/
def TrkOk (d : Db) (seen : List TxId) : Prop :=
  ∀ k t, d.trackers k = some t →
    ∃ a, d.appts k = some a ∧ a.blob.decrypt t.dispute = some t.penalty ∧ t.dispute ∈ seen ∧ locOf t.dispute = k.1

/-- the locator cache only holds transactions of connected blocks, under their own locator -/
def CacheOk (c : TxIndex Loc TxId) (seen : List TxId) : Prop :=
  ∀ l d, c.index l = some d → d ∈ seen ∧ locOf d = l

structure Just (s : Tower) (seen : List TxId) : Prop where
  trk : TrkOk s.db seen
  cache : CacheOk s.mem.cache seen

theorem TrkOk.mono {d : Db} {seen seen' : List TxId} (h : TrkOk d seen) (hs : ∀ x, x ∈ seen → x ∈ seen') :
    TrkOk d seen' := by
  intro k t ht
  obtain ⟨a, h1, h2, h3, h4⟩ := h k t ht
  exact ⟨a, h1, h2, hs _ h3, h4⟩

theorem CacheOk.mono {c : TxIndex Loc TxId} {seen seen' : List TxId} (h : CacheOk c seen)
    (hs : ∀ x, x ∈ seen → x ∈ seen') : CacheOk c seen' := by
  intro l d hd
  exact ⟨hs _ (h l d hd).1, (h l d hd).2⟩

theorem Just.mono {s : Tower} {seen seen' : List TxId} (h : Just s seen) (hs : ∀ x, x ∈ seen → x ∈ seen') :
    Just s seen' := ⟨h.trk.mono hs, h.cache.mono hs⟩

/-! ### what justifies a submission -/

/-- appointment `k` with blob `b` is held in `s` -/
def heldIn (s : Tower) (k : Uuid) (b : Blob) : Prop := ∃ a, s.db.appts k = some a ∧ a.blob = b

/-- `tx` is the penalty that a held blob decrypts to under a seen dispute carrying the appointment's
locator, or that dispute itself -/
def JustifiedBy (held : Uuid → Blob → Prop) (seen : List TxId) (tx : TxId) : Prop :=
  ∃ k b d p, held k b ∧ d ∈ seen ∧ locOf d = k.1 ∧ b.decrypt d = some p ∧ (tx = p ∨ tx = d)

theorem JustifiedBy.mono {held held' : Uuid → Blob → Prop} {seen seen' : List TxId} {tx : TxId}
    (h : JustifiedBy held seen tx) (hh : ∀ k b, held k b → held' k b) (hs : ∀ x, x ∈ seen → x ∈ seen') :
    JustifiedBy held' seen' tx := by
  obtain ⟨k, b, d, p, h1, h2, h3, h4, h5⟩ := h
  exact ⟨k, b, d, p, hh k b h1, hs d h2, h3, h4, h5⟩

/-- no appointment appears between `s` and `s'` -/
def AS (s s' : Tower) : Prop := ∀ k a, s'.db.appts k = some a → s.db.appts k = some a

theorem heldIn_of_AS {s s' : Tower} (h : AS s s') (k : Uuid) (b : Blob) (hh : heldIn s' k b) : heldIn s k b := by
  obtain ⟨a, h1, h2⟩ := hh
  exact ⟨a, h k a h1, h2⟩

/-- the tracker and the cache justify: a tracker's two transactions are justified by what is held -/
theorem tracker_justified {s : Tower} {seen : List TxId} (h : Just s seen) {k : Uuid} {t : Tracker}
    (ht : s.db.trackers k = some t) :
    JustifiedBy (heldIn s) seen t.penalty ∧ JustifiedBy (heldIn s) seen t.dispute := by
  obtain ⟨a, h1, h2, h3, h4⟩ := h.trk k t ht
  exact ⟨⟨k, a.blob, t.dispute, t.penalty, ⟨a, h1, rfl⟩, h3, h4, h2, Or.inl rfl⟩,
         ⟨k, a.blob, t.dispute, t.penalty, ⟨a, h1, rfl⟩, h3, h4, h2, Or.inr rfl⟩⟩

/-! ### steps that create nothing -/

/-- going from `s` to `s'` only deleted rows or changed a tracker's status; the cache is untouched -/
structure Shrink (s s' : Tower) : Prop where
  appts : ∀ k a, s'.db.appts k = some a → s.db.appts k = some a
  trk : ∀ k t', s'.db.trackers k = some t' →
    ∃ t, s.db.trackers k = some t ∧ t.dispute = t'.dispute ∧ t.penalty = t'.penalty ∧ s'.db.appts k = s.db.appts k
  cache : s'.mem.cache = s.mem.cache

theorem Shrink.refl (s : Tower) : Shrink s s :=
  ⟨fun _ _ h => h, fun _ t h => ⟨t, h, rfl, rfl, rfl⟩, rfl⟩

theorem Shrink.trans {a b c : Tower} (h1 : Shrink a b) (h2 : Shrink b c) : Shrink a c := by
  refine ⟨fun k x h => h1.appts k x (h2.appts k x h), ?_, by rw [h2.cache, h1.cache]⟩
  intro k t' ht'
  obtain ⟨t1, g1, g2, g3, g4⟩ := h2.trk k t' ht'
  obtain ⟨t0, f1, f2, f3, f4⟩ := h1.trk k t1 g1
  exact ⟨t0, f1, f2.trans g2, f3.trans g3, g4.trans f4⟩

theorem Shrink.just {s s' : Tower} {seen : List TxId} (h : Shrink s s') (hj : Just s seen) : Just s' seen := by
  refine ⟨?_, by rw [h.cache]; exact hj.cache⟩
  intro k t' ht'
  obtain ⟨t, g1, g2, g3, g4⟩ := h.trk k t' ht'
  obtain ⟨a, h1, h2, h3, h4⟩ := hj.trk k t g1
  exact ⟨a, by rw [g4]; exact h1, by rw [← g2, ← g3]; exact h2, by rw [← g2]; exact h3, by rw [← g2]; exact h4⟩

/-- same tables, same cache -/
theorem shrink_of_eq (s s' : Tower) (ha : s'.db.appts = s.db.appts) (ht : s'.db.trackers = s.db.trackers)
    (hc : s'.mem.cache = s.mem.cache) : Shrink s s' :=
  ⟨fun k a h => by rw [← ha]; exact h, fun k t h => ⟨t, by rw [← ht]; exact h, rfl, rfl, by rw [ha]⟩, hc⟩

theorem shrink_abort (s : Tower) (site : String) : Shrink s (s.abort site) :=
  shrink_of_eq _ _ (by rw [abort_db]) (by rw [abort_db]) (by rw [abort_mem])

theorem shrink_dropAppts (s : Tower) (d' : Db) (ks : List Uuid)
    (ha : d'.appts = (s.db.dropAppts ks).appts) (ht : d'.trackers = (s.db.dropAppts ks).trackers) :
    Shrink s { s with db := d' } := by
  refine ⟨?_, ?_, rfl⟩
  · intro k a h
    simp only [ha, Db.dropAppts] at h
    split at h
    · cases h
    · exact h
  · intro k t h
    simp only [ht, Db.dropAppts] at h
    split at h
    · cases h
    · rename_i hk
      refine ⟨t, h, rfl, rfl, ?_⟩
      simp only [ha, Db.dropAppts, hk, ↓reduceIte]

theorem removeAppts_tables (d : Db) (ks : List Uuid) :
    ((d.removeAppts ks).appts = (d.dropAppts ks).appts ∧ (d.removeAppts ks).trackers = (d.dropAppts ks).trackers) ∨
    d.removeAppts ks = d := by
  unfold Db.removeAppts
  split
  · split
    · exact Or.inl ⟨rfl, rfl⟩
    · exact Or.inr rfl
  · exact Or.inl ⟨rfl, rfl⟩

theorem foldl_setSlots_tables (bal : List (User × Nat)) (d : Db) :
    (bal.foldl (fun d (b : User × Nat) => d.setSlots b.1 b.2) d).appts = d.appts ∧
    (bal.foldl (fun d (b : User × Nat) => d.setSlots b.1 b.2) d).trackers = d.trackers :=
  ⟨foldl_db_appts _ (fun d b => Db.setSlots_appts d b.1 b.2) bal d,
   foldl_db_trackers _ (fun d b => Db.setSlots_trackers d b.1 b.2) bal d⟩

theorem refundStep_frame (acc : Tower × List User) (k : Uuid) :
    (refundStep acc k).1.db = acc.1.db ∧ (refundStep acc k).1.mem.cache = acc.1.mem.cache := by
  obtain ⟨s, upd⟩ := acc
  unfold refundStep
  simp only
  split
  · exact ⟨by rw [abort_db], by rw [abort_mem]⟩
  · split
    · exact ⟨by rw [abort_db], by rw [abort_mem]⟩
    · exact ⟨rfl, rfl⟩

theorem refundLoop_frame : ∀ (ks : List Uuid) (acc : Tower × List User),
    (ks.foldl refundStep acc).1.db = acc.1.db ∧ (ks.foldl refundStep acc).1.mem.cache = acc.1.mem.cache
  | [], _ => ⟨rfl, rfl⟩
  | k :: r, acc => by
    simp only [List.foldl_cons]
    obtain ⟨h1, h2⟩ := refundLoop_frame r (refundStep acc k)
    obtain ⟨g1, g2⟩ := refundStep_frame acc k
    exact ⟨h1.trans g1, h2.trans g2⟩

theorem shrink_deleteAppointments (s : Tower) (ks : List Uuid) (refund : Bool) :
    Shrink s (deleteAppointments s ks refund) := by
  unfold deleteAppointments
  cases refund with
  | false =>
    simp only [Bool.false_eq_true, ↓reduceIte]
    rcases removeAppts_tables s.db ks with ⟨h1, h2⟩ | h
    · exact shrink_dropAppts s _ ks h1 h2
    · rw [h]; exact Shrink.refl s
  | true =>
    simp only [↓reduceIte]
    obtain ⟨h1, h2⟩ := refundLoop_frame ks (s, [])
    simp only at h1 h2
    have hs1 : Shrink s (ks.foldl refundStep (s, [])).1 :=
      shrink_of_eq _ _ (by rw [h1]) (by rw [h1]) h2
    refine hs1.trans ?_
    apply shrink_dropAppts
    · unfold Db.removeApptsRefund
      simp only
      exact (foldl_setSlots_tables _ _).1
    · unfold Db.removeApptsRefund
      simp only
      exact (foldl_setSlots_tables _ _).2

theorem shrink_gkConnect (cfg : Cfg) (s : Tower) (H : Nat) : Shrink s (gkConnect cfg s H) := by
  refine ⟨?_, ?_, ?_⟩
  · intro k a h
    rw [gkConnect_db_appts] at h
    split at h
    · cases h
    · exact h
  · intro k t h
    rw [gkConnect_db_trackers] at h
    split at h
    · cases h
    · rename_i hk
      exact ⟨t, h, rfl, rfl, by rw [gkConnect_db_appts, if_neg hk]⟩
  · unfold gkConnect
    simp only
    split <;> rfl

/-- the appointment table and the locator cache are exactly what they were -/
def Shrink' (s s' : Tower) : Prop := s'.db.appts = s.db.appts ∧ s'.mem.cache = s.mem.cache

/-! ### steps that talk to the node -/

/-- from `s` (where the invariant holds for `seen`) to `s'` with RPC log `log`: the invariant still
holds, no appointment appeared, and every submission in `log` is justified by what `s` held -/
structure Ok (s : Tower) (seen : List TxId) (s' : Tower) (log : List Rpc) : Prop where
  just : Just s' seen
  as : AS s s'
  sends : ∀ tx, Rpc.send tx ∈ log → JustifiedBy (heldIn s) seen tx

theorem Ok.refl {s : Tower} {seen : List TxId} (h : Just s seen) : Ok s seen s [] :=
  ⟨h, fun _ _ h => h, fun _ h => by cases h⟩

theorem Ok.trans {a b c : Tower} {seen : List TxId} {l1 l2 : List Rpc} (h1 : Ok a seen b l1) (h2 : Ok b seen c l2) :
    Ok a seen c (l1 ++ l2) := by
  refine ⟨h2.just, fun k x h => h1.as k x (h2.as k x h), ?_⟩
  intro tx h
  rcases List.mem_append.1 h with h | h
  · exact h1.sends tx h
  · exact (h2.sends tx h).mono (heldIn_of_AS h1.as) (fun _ h => h)

theorem Shrink.ok {s s' : Tower} {seen : List TxId} (h : Shrink s s') (hj : Just s seen) : Ok s seen s' [] :=
  ⟨h.just hj, h.appts, fun _ h => by cases h⟩

theorem Ok.shrink {a b c : Tower} {seen : List TxId} {l : List Rpc} (h1 : Ok a seen b l) (h2 : Shrink b c) :
    Ok a seen c l := by
  have := h1.trans (h2.ok h1.just)
  simpa using this

theorem Ok.log_eq {a b : Tower} {seen : List TxId} {l l' : List Rpc} (h : Ok a seen b l) (e : l' = l) :
    Ok a seen b l' := by subst e; exact h

/-- a change of volatile state that leaves the locator cache alone -/
theorem shrink_mem (s : Tower) (m : Mem) (hc : m.cache = s.mem.cache) : Shrink s { s with mem := m } :=
  shrink_of_eq _ _ rfl rfl hc

theorem carrierSend_cache (m : Mem) (node : Node) (tx : TxId) : (carrierSend m node tx).1.cache = m.cache := by
  unfold carrierSend; split <;> rfl

theorem carrierSend_sends (m : Mem) (node : Node) (tx x : TxId) (h : Rpc.send x ∈ (carrierSend m node tx).2.2) :
    x = tx := by
  rcases carrierSend_log m node tx with h0 | h0 <;> rw [h0] at h <;> simp at h
  exact h

/-- a new tracker that is justified keeps the invariant (`store_tracker` needs the appointment row) -/
theorem just_addTracker (s : Tower) (seen : List TxId) (k : Uuid) (d p : TxId) (st : CStatus) (u : User)
    (hj : Just s seen)
    (ha : ∀ a, s.db.appts k = some a → a.blob.decrypt d = some p) (hs : d ∈ seen)
    (hl : locOf d = k.1) :
    Just (addTracker s k { dispute := d, penalty := p, status := st, user := u }) seen ∧
    Shrink' s (addTracker s k { dispute := d, penalty := p, status := st, user := u }) := by
  unfold addTracker
  cases hst : s.db.storeTracker k { dispute := d, penalty := p, status := st, user := u } with
  | none => exact ⟨hj, rfl, rfl⟩
  | some db' =>
    unfold Db.storeTracker at hst
    split at hst
    · cases hst
    · split at hst
      · rename_i a0 _ hrow
        simp only [Option.some.injEq] at hst
        subst hst
        refine ⟨⟨?_, hj.cache⟩, rfl, rfl⟩
        intro x t' ht'
        simp only at ht'
        by_cases e : x = k
        · subst e
          simp only [↓reduceIte, Option.some.injEq] at ht'
          subst ht'
          exact ⟨_, hrow, ha _ hrow, hs, hl⟩
        · simp only [e, ↓reduceIte] at ht'
          exact hj.trk x t' ht'
      · cases hst

/-- `handle_breach`: the invariant is kept, the appointment table and the cache are untouched, and
nothing but the penalty is submitted -/
theorem handleBreach_spec (s : Tower) (seen : List TxId) (node : Node) (k : Uuid) (d p : TxId) (u : User)
    (hj : Just s seen) (ha : ∀ a, s.db.appts k = some a → a.blob.decrypt d = some p) (hs : d ∈ seen)
    (hl : locOf d = k.1) :
    Just (handleBreach s node k d p u).1 seen ∧ Shrink' s (handleBreach s node k d p u).1 ∧
    ∀ tx, Rpc.send tx ∈ (handleBreach s node k d p u).2.2 → tx = p := by
  unfold handleBreach
  split
  · split
    · exact ⟨(shrink_abort s _).just hj, ⟨by rw [abort_db], by rw [abort_mem]⟩, fun tx h => by cases h⟩
    · obtain ⟨j, sh⟩ := just_addTracker s seen k d p _ u hj ha hs hl
      exact ⟨j, sh, fun tx h => by cases h⟩
  · split
    · obtain ⟨j, sh⟩ := just_addTracker s seen k d p (.inMempoolSince s.mem.cHeight) u hj ha hs hl
      exact ⟨j, sh, fun tx h => by simp at h⟩
    · have hsh : Shrink s { s with mem := (carrierSend s.mem node p).1 } :=
        shrink_of_eq _ _ rfl rfl (carrierSend_cache _ _ _)
      have hj1 := hsh.just hj
      have hsends : ∀ tx, Rpc.send tx ∈ (Rpc.get p :: (carrierSend s.mem node p).2.2) → tx = p := by
        intro tx h
        simp only [List.mem_cons] at h
        rcases h with h | h
        · cases h
        · exact carrierSend_sends _ _ _ _ h
      simp only
      split
      · obtain ⟨j, sh⟩ := just_addTracker { s with mem := (carrierSend s.mem node p).1 } seen k
            d p (carrierSend s.mem node p).2.1 u hj1 ha hs hl
        exact ⟨j, ⟨sh.1, by rw [sh.2]; exact carrierSend_cache _ _ _⟩, hsends⟩
      · exact ⟨hj1, ⟨rfl, carrierSend_cache _ _ _⟩, hsends⟩

theorem ok_handleBreach (s : Tower) (seen : List TxId) (node : Node) (k : Uuid) (d p : TxId) (u : User) (a : Appt)
    (hj : Just s seen) (ha : s.db.appts k = some a) (hd : a.blob.decrypt d = some p) (hs : d ∈ seen)
    (hl : locOf d = k.1) :
    Ok s seen (handleBreach s node k d p u).1 (handleBreach s node k d p u).2.2 := by
  obtain ⟨j, sh, snd⟩ := handleBreach_spec s seen node k d p u hj
    (fun a' ha' => by rw [ha] at ha'; cases ha'; exact hd) hs hl
  refine ⟨j, fun x y h => by rw [sh.1] at h; exact h, ?_⟩
  intro tx h
  rw [snd tx h]
  exact ⟨k, a.blob, d, p, ⟨a, ha, rfl⟩, hs, hl, hd, Or.inl rfl⟩

/-- a loop invariant, with membership -/
theorem foldl_inv_mem {α β : Type} (P : β → Prop) (f : β → α → β) :
    ∀ (l : List α) (init : β), (∀ acc x, x ∈ l → P acc → P (f acc x)) → P init → P (l.foldl f init)
  | [], _, _, h => h
  | x :: r, init, hf, h => by
    simp only [List.foldl_cons]
    exact foldl_inv_mem P f r _ (fun acc y hy => hf acc y (List.mem_cons_of_mem _ hy))
      (hf init x List.mem_cons_self h)

/-! ### the watcher's loops -/

/-- the accumulator of the RPC loops: state, rejected/invalid keys, log so far -/
def AccOk (s0 : Tower) (seen : List TxId) (acc : Tower × List Uuid × List Rpc) : Prop :=
  Ok s0 seen acc.1 acc.2.2

theorem mem_uuidsWithLoc (d : Db) (l : Loc) (k : Uuid) (h : k ∈ d.uuidsWithLoc l) : k.1 = l := by
  unfold Db.uuidsWithLoc at h
  simp only [List.mem_filter, decide_eq_true_eq] at h
  exact h.2

theorem accOk_breachStep (s0 : Tower) (seen : List TxId) (node : Node) (d : TxId) (hs : d ∈ seen)
    (acc : Tower × List Uuid × List Rpc) (k : Uuid) (hk : k.1 = locOf d) (h : AccOk s0 seen acc) :
    AccOk s0 seen (breachStep node d acc k) := by
  obtain ⟨s, inv, log⟩ := acc
  unfold AccOk at h ⊢
  simp only at h
  unfold breachStep
  simp only
  cases ha : s.db.appts k with
  | none => simp only; exact h.shrink (shrink_abort s _)
  | some a =>
    simp only
    cases hd : a.blob.decrypt d with
    | none => simp only; exact h
    | some p =>
      simp only
      have o := h.trans (ok_handleBreach s seen node k d p a.user a h.just ha hd hs hk.symm)
      split <;> exact o

theorem accOk_disputeStep (s0 : Tower) (seen : List TxId) (node : Node)
    (acc : Tower × List Uuid × List Rpc) (d : TxId) (hs : d ∈ seen) (h : AccOk s0 seen acc) :
    AccOk s0 seen (disputeStep node acc d) := by
  unfold disputeStep
  exact foldl_inv_mem (AccOk s0 seen) (breachStep node d) _ acc
    (fun a k hk ha => accOk_breachStep s0 seen node d hs a k (mem_uuidsWithLoc _ _ _ hk) ha) h

theorem ok_handleBreaches (s : Tower) (seen : List TxId) (node : Node) (disputes : List TxId) (hj : Just s seen)
    (hd : ∀ d, d ∈ disputes → d ∈ seen) :
    Ok s seen (handleBreaches s node disputes).1 (handleBreaches s node disputes).2.2 := by
  unfold handleBreaches
  exact foldl_inv_mem (AccOk s seen) (disputeStep node) disputes (s, [], [])
    (fun a d hdm ha => accOk_disputeStep s seen node a d (hd d hdm) ha) (Ok.refl hj)

theorem lookup_map_loc (k : Loc) (d : TxId) : ∀ (txs : List TxId),
    TxIndex.lookup k (txs.map fun t => (locOf t, t)) = some d → d ∈ txs ∧ locOf d = k
  | [], h => by simp [TxIndex.lookup] at h
  | t :: r, h => by
    simp only [List.map_cons, TxIndex.lookup] at h
    split at h
    · rename_i e
      simp only [Option.some.injEq] at h
      subst h
      exact ⟨List.mem_cons_self, e⟩
    · obtain ⟨h1, h2⟩ := lookup_map_loc k d r h
      exact ⟨List.mem_cons_of_mem _ h1, h2⟩

theorem cacheOk_removeOldest {c : TxIndex Loc TxId} {seen : List TxId} (h : CacheOk c seen) :
    CacheOk c.removeOldest seen := by
  unfold TxIndex.removeOldest
  split
  · exact h
  · intro l d hd
    simp only at hd
    split at hd
    · cases hd
    · exact h l d hd

theorem removeOldest_index {K V : Type} [DecidableEq K] (t : TxIndex K V) (l : K) (d : V)
    (h : t.removeOldest.index l = some d) : t.index l = some d := by
  unfold TxIndex.removeOldest at h
  split at h
  · exact h
  · simp only at h
    split at h
    · cases h
    · exact h

theorem update_index_cases {K V : Type} [DecidableEq K] (c : TxIndex K V) (b : Nat) (data : List (K × V)) (l : K) (d : V)
    (h : (c.update b data).index l = some d) : TxIndex.lookup l data = some d ∨ c.index l = some d := by
  unfold TxIndex.update at h
  simp only at h
  split at h
  · have h' := removeOldest_index _ l d h
    simp only at h'
    split at h'
    · rename_i v hv; rw [hv]; exact Or.inl h'
    · exact Or.inr h'
  · simp only at h
    split at h
    · rename_i v hv; rw [hv]; exact Or.inl h
    · exact Or.inr h

theorem cacheOk_update {c : TxIndex Loc TxId} {seen : List TxId} (h : CacheOk c seen) (b : Nat) (txs : List TxId)
    (hs : ∀ x, x ∈ txs → x ∈ seen) : CacheOk (c.update b (txs.map fun t => (locOf t, t))) seen := by
  intro l d hd
  rcases update_index_cases c b _ l d hd with h1 | h1
  · obtain ⟨g1, g2⟩ := lookup_map_loc l d txs h1
    exact ⟨hs _ g1, g2⟩
  · exact h l d h1

theorem cacheOk_removeDisconnected {c : TxIndex Loc TxId} {seen : List TxId} (h : CacheOk c seen) (b : Nat) :
    CacheOk (c.removeDisconnected b) seen := by
  unfold TxIndex.removeDisconnected
  split
  · exact h
  · intro l d hd
    simp only at hd
    split at hd
    · cases hd
    · exact h l d hd

theorem ok_watcherConnect (s : Tower) (seen : List TxId) (node : Node) (b height : Nat) (txs : List TxId)
    (hj : Just s seen) :
    Ok s (seen ++ txs) (watcherConnect s node b height txs).1 (watcherConnect s node b height txs).2 := by
  have hsub : ∀ x, x ∈ seen → x ∈ seen ++ txs := fun x h => List.mem_append.2 (Or.inl h)
  have hsub2 : ∀ x, x ∈ txs → x ∈ seen ++ txs := fun x h => List.mem_append.2 (Or.inr h)
  unfold watcherConnect
  simp only
  have hj1 : Just { s with mem := { s.mem with cache := s.mem.cache.update b (txs.map fun t => (locOf t, t)) } }
      (seen ++ txs) :=
    ⟨hj.trk.mono hsub, cacheOk_update (hj.cache.mono hsub) b txs hsub2⟩
  have o := ok_handleBreaches _ (seen ++ txs) node
      (txs.filter fun t => !(Db.uuidsWithLoc s.db (locOf t)).isEmpty) hj1
      (fun d hd => hsub2 d (List.mem_filter.1 hd).1)
  have o' : Ok s (seen ++ txs) _ _ := ⟨o.just, o.as, o.sends⟩
  split
  · exact o'.shrink (shrink_mem _ _ rfl)
  · exact (o'.shrink (shrink_deleteAppointments _ _ false)).shrink (shrink_mem _ _ rfl)

theorem shrink_watcherDisconnect_just (s : Tower) (seen : List TxId) (b height : Nat) (hj : Just s seen) :
    Just (watcherDisconnect s b height) seen ∧ AS s (watcherDisconnect s b height) :=
  ⟨⟨hj.trk, cacheOk_removeDisconnected hj.cache b⟩, fun _ _ h => h⟩

/-! ### the responder -/

theorem shrink_updateTrackerStatus (s : Tower) (m : Mem) (hc : m.cache = s.mem.cache) (k : Uuid) (st : CStatus) (db' : Db)
    (h : s.db.updateTrackerStatus k st = some db') : Shrink s { s with db := db', mem := m } := by
  unfold Db.updateTrackerStatus at h
  split at h
  · cases h
  · split at h
    · cases h
    · rename_i t ht
      simp only [Option.some.injEq] at h
      subst h
      refine ⟨fun _ _ h => h, ?_, hc⟩
      intro x t' ht'
      simp only at ht'
      by_cases e : x = k
      · subst e
        simp only [↓reduceIte, Option.some.injEq] at ht'
        subst ht'
        exact ⟨t, ht, rfl, rfl, rfl⟩
      · simp only [e, ↓reduceIte] at ht'
        exact ⟨t', ht', rfl, rfl, rfl⟩

theorem shrink_confirmStep (txids : List TxId) (height : Nat) (acc : Tower × List Uuid) (k : Uuid) :
    Shrink acc.1 (confirmStep txids height acc k).1 := by
  obtain ⟨s, done⟩ := acc
  unfold confirmStep
  simp only
  split
  · exact Shrink.refl _
  · split
    · split
      · exact shrink_abort s _
      · rename_i db' hdb
        refine shrink_updateTrackerStatus s _ ?_ k _ db' hdb
        rfl
    · split
      · exact Shrink.refl _
      · split
        · split
          · exact Shrink.refl _
          · exact Shrink.refl _
        all_goals exact Shrink.refl _

theorem shrink_foldl {α β : Type} (f : Tower × β → α → Tower × β) (hf : ∀ acc a, Shrink acc.1 (f acc a).1) :
    ∀ (xs : List α) (acc : Tower × β), Shrink acc.1 (xs.foldl f acc).1
  | [], acc => Shrink.refl _
  | x :: r, acc => by
    simp only [List.foldl_cons]
    exact (hf acc x).trans (shrink_foldl f hf r _)

theorem shrink_checkConfirmations (s : Tower) (txids : List TxId) (height : Nat) :
    Shrink s (checkConfirmations s txids height).1 := by
  unfold checkConfirmations
  exact shrink_foldl _ (fun acc a => shrink_confirmStep txids height acc a) _ (s, [])

theorem accOk_reorgStep (s0 : Tower) (seen : List TxId) (node : Node) (height : Nat)
    (acc : Tower × List Uuid × List Rpc) (k : Uuid) (h : AccOk s0 seen acc) :
    AccOk s0 seen (reorgStep node height acc k) := by
  obtain ⟨s, rej, log⟩ := acc
  unfold AccOk at h ⊢
  simp only at h
  unfold reorgStep
  simp only
  cases ht : s.db.trackers k with
  | none => simp only; exact h
  | some t =>
    simp only
    obtain ⟨jp, jd⟩ := tracker_justified h.just ht
    -- first submission: the dispute
    have sh1 : Shrink s { s with mem := (carrierSend s.mem node t.dispute).1 } :=
      shrink_mem s _ (carrierSend_cache _ _ _)
    have o1 : Ok s seen { s with mem := (carrierSend s.mem node t.dispute).1 } (carrierSend s.mem node t.dispute).2.2 :=
      ⟨sh1.just h.just, sh1.appts, fun tx hx => by rw [carrierSend_sends _ _ _ _ hx]; exact jd⟩
    have a1 := h.trans o1
    -- second submission: the penalty
    have sh2 : Shrink { s with mem := (carrierSend s.mem node t.dispute).1 }
        { s with mem := (carrierSend (carrierSend s.mem node t.dispute).1 node t.penalty).1 } :=
      shrink_of_eq _ _ rfl rfl (by simp only [carrierSend_cache])
    have o2 : Ok { s with mem := (carrierSend s.mem node t.dispute).1 } seen
        { s with mem := (carrierSend (carrierSend s.mem node t.dispute).1 node t.penalty).1 }
        (carrierSend (carrierSend s.mem node t.dispute).1 node t.penalty).2.2 :=
      ⟨sh2.just a1.just, sh2.appts, fun tx hx => by
        rw [carrierSend_sends _ _ _ _ hx]
        exact jp.mono (fun k b hh => hh) (fun _ h => h)⟩
    have a2 := a1.trans o2
    split
    · exact a1.shrink (shrink_abort _ _)
    · exact a1
    · split
      · exact a2.log_eq (by simp [List.append_assoc])
      · split
        · exact (a2.shrink (shrink_abort _ _)).log_eq (by simp [List.append_assoc])
        · rename_i db' hdb
          exact (a2.shrink (shrink_updateTrackerStatus _ _ rfl k _ db' hdb)).log_eq (by simp [List.append_assoc])

theorem ok_handleReorgedTxs (s : Tower) (seen : List TxId) (node : Node) (height : Nat) (hj : Just s seen) :
    Ok s seen (handleReorgedTxs s node height).1 (handleReorgedTxs s node height).2.2 := by
  unfold handleReorgedTxs
  have h0 : AccOk s seen ({ s with mem := { s.mem with reorged := [] } }, [], []) := by
    show Ok s seen { s with mem := { s.mem with reorged := [] } } []
    have sh : Shrink s { s with mem := { s.mem with reorged := [] } } := shrink_of_eq _ _ rfl rfl rfl
    exact sh.ok hj
  exact foldl_inv_mem (AccOk s seen) (reorgStep node height) _ _
    (fun a k _ ha => accOk_reorgStep s seen node height a k ha) h0

theorem accOk_rebroadcastStep (s0 : Tower) (seen : List TxId) (node : Node) (height : Nat)
    (acc : Tower × List Uuid × List Rpc) (k : Uuid) (h : AccOk s0 seen acc) :
    AccOk s0 seen (rebroadcastStep node height acc k) := by
  obtain ⟨s, rej, log⟩ := acc
  unfold AccOk at h ⊢
  simp only at h
  unfold rebroadcastStep
  simp only
  cases ht : s.db.trackers k with
  | none => simp only; exact h.shrink (shrink_abort _ _)
  | some t =>
    simp only
    obtain ⟨jp, _⟩ := tracker_justified h.just ht
    have sh1 : Shrink s { s with mem := (carrierSend s.mem node t.penalty).1 } :=
      shrink_mem s _ (carrierSend_cache _ _ _)
    have o1 : Ok s seen { s with mem := (carrierSend s.mem node t.penalty).1 } (carrierSend s.mem node t.penalty).2.2 :=
      ⟨sh1.just h.just, sh1.appts, fun tx hx => by rw [carrierSend_sends _ _ _ _ hx]; exact jp⟩
    have a1 := h.trans o1
    split
    · exact a1
    · split
      · exact a1.shrink (shrink_abort _ _)
      · rename_i db' hdb
        exact a1.shrink (shrink_updateTrackerStatus _ _ rfl k _ db' hdb)

theorem ok_rebroadcastStaleTxs (s : Tower) (seen : List TxId) (node : Node) (height : Nat) (hj : Just s seen) :
    Ok s seen (rebroadcastStaleTxs s node height).1 (rebroadcastStaleTxs s node height).2.2 := by
  unfold rebroadcastStaleTxs
  split
  · exact (shrink_abort s _).ok hj
  · exact foldl_inv_mem (AccOk s seen) (rebroadcastStep node height) _ (s, [], [])
      (fun a k _ ha => accOk_rebroadcastStep s seen node height a k ha) (Ok.refl hj)

theorem ok_respConnect (s : Tower) (seen : List TxId) (node : Node) (b height : Nat) (txs : List TxId)
    (hj : Just s seen) :
    Ok s seen (respConnect s node b height txs).1 (respConnect s node b height txs).2 := by
  unfold respConnect
  simp only
  have s1 : Shrink s (respPrepare s b height txs) := shrink_mem s _ rfl
  have s2 := s1.trans (shrink_checkConfirmations (respPrepare s b height txs) txs height)
  generalize hc : checkConfirmations (respPrepare s b height txs) txs height = cc at s2
  obtain ⟨c1, completed⟩ := cc
  simp only at s2 ⊢
  have s3 : Shrink s (if completed.isEmpty then c1 else deleteAppointments c1 completed true) := by
    split
    · exact s2
    · exact s2.trans (shrink_deleteAppointments _ _ _)
  generalize (if completed.isEmpty then c1 else deleteAppointments c1 completed true) = t3 at s3
  have o3 : Ok s seen t3 [] := s3.ok hj
  have o4 : Ok s seen (if t3.mem.reorged.isEmpty then (t3, ([] : List Uuid), ([] : List Rpc)) else handleReorgedTxs t3 node height).1
      (if t3.mem.reorged.isEmpty then (t3, ([] : List Uuid), ([] : List Rpc)) else handleReorgedTxs t3 node height).2.2 := by
    split
    · exact o3
    · have := o3.trans (ok_handleReorgedTxs t3 seen node height o3.just)
      simpa using this
  generalize (if t3.mem.reorged.isEmpty then (t3, ([] : List Uuid), ([] : List Rpc)) else handleReorgedTxs t3 node height) = r4 at o4
  obtain ⟨t4, rej1, log1⟩ := r4
  simp only at o4 ⊢
  have o5 := o4.trans (ok_rebroadcastStaleTxs t4 seen node height o4.just)
  generalize rebroadcastStaleTxs t4 node height = r5 at o5
  obtain ⟨t5, rej2, log2⟩ := r5
  simp only at o5 ⊢
  split
  · exact o5.shrink (shrink_mem _ _ rfl)
  · exact (o5.shrink (shrink_deleteAppointments _ _ _)).shrink (shrink_mem _ _ rfl)

theorem shrink_respDisconnect (s : Tower) (b height : Nat) : Shrink s (respDisconnect s b height) := by
  unfold respDisconnect
  exact shrink_mem s _ rfl

/-! ### requests -/

theorem shrink_addUpdateUser (cfg : Cfg) (s : Tower) (u : User) : Shrink s (addUpdateUser cfg s u).1 := by
  unfold addUpdateUser
  simp only
  split
  · split
    · exact Shrink.refl s
    · exact shrink_of_eq _ _ (by simp) (by simp) rfl
  · split
    · exact shrink_abort s _
    · rename_i db' hdb
      unfold Db.storeUser at hdb
      split at hdb
      · cases hdb
      · simp only [Option.some.injEq] at hdb
        subst hdb
        exact shrink_of_eq _ _ rfl rfl rfl

theorem shrink_register (cfg : Cfg) (s : Tower) (u : User) : Shrink s (register cfg s u).1 := by
  unfold register
  have := shrink_addUpdateUser cfg s u
  split <;> rename_i h <;> rw [h] at this <;> exact this

theorem shrink_addUpdateAppointment (s : Tower) (u : User) (k : Uuid) (len : Nat) :
    Shrink s (addUpdateAppointment s u k len).1 := by
  unfold addUpdateAppointment
  split
  · exact shrink_abort s _
  · simp only
    split
    · exact shrink_of_eq _ _ (by simp) (by simp) rfl
    · exact Shrink.refl s

/-- what `store_appointment` does to the tables -/
theorem storeAppointment_spec (s : Tower) (k : Uuid) (a : Appt) :
    (storeAppointment s k a).db.trackers = s.db.trackers ∧ (storeAppointment s k a).mem.cache = s.mem.cache ∧
    (∀ x, x ≠ k → (storeAppointment s k a).db.appts x = s.db.appts x) ∧
    (∀ a', (storeAppointment s k a).db.appts k = some a' → a'.blob = a.blob) := by
  unfold storeAppointment
  split
  · rename_i old hold
    split
    · rename_i db' hdb
      unfold Db.updateAppt at hdb
      rw [hold] at hdb
      simp only [Option.some.injEq] at hdb
      subst hdb
      refine ⟨rfl, rfl, fun x hx => by simp only [hx, ↓reduceIte], ?_⟩
      intro a' ha'
      simp only [↓reduceIte, Option.some.injEq] at ha'
      subst ha'
      rfl
    · rename_i hdb
      unfold Db.updateAppt at hdb
      rw [hold] at hdb
      cases hdb
  · rename_i hnone
    split
    · rename_i db' hdb
      unfold Db.storeAppt at hdb
      split at hdb
      · simp only [Option.some.injEq] at hdb
        subst hdb
        refine ⟨rfl, rfl, fun x hx => by simp only [hx, ↓reduceIte], ?_⟩
        intro a' ha'
        simp only [↓reduceIte, Option.some.injEq] at ha'
        subst ha'
        rfl
      · cases hdb
    · refine ⟨by rw [abort_db], by rw [abort_mem], fun x _ => by rw [abort_db], fun a' ha' => ?_⟩
      rw [abort_db, hnone] at ha'
      cases ha'

/-- storing an appointment under a key that has no tracker keeps the invariant -/
theorem just_storeAppointment (s : Tower) (seen : List TxId) (k : Uuid) (a : Appt) (hj : Just s seen)
    (hk : s.db.trackers k = none) : Just (storeAppointment s k a) seen := by
  obtain ⟨h1, h2, h3, _⟩ := storeAppointment_spec s k a
  refine ⟨?_, by rw [h2]; exact hj.cache⟩
  intro x t ht
  rw [h1] at ht
  by_cases e : x = k
  · subst e; rw [hk] at ht; cases ht
  · rw [h3 x e]; exact hj.trk x t ht

/-- held after `store_appointment`: what was held, or the stored blob under its key -/
theorem held_storeAppointment (s : Tower) (k : Uuid) (a : Appt) (x : Uuid) (b : Blob)
    (h : heldIn (storeAppointment s k a) x b) : heldIn s x b ∨ (x = k ∧ b = a.blob) := by
  obtain ⟨_, _, h3, h4⟩ := storeAppointment_spec s k a
  obtain ⟨a', ha', hb⟩ := h
  by_cases e : x = k
  · subst e
    exact Or.inr ⟨rfl, by rw [← hb, h4 a' ha']⟩
  · rw [h3 x e] at ha'
    exact Or.inl ⟨a', ha', hb⟩

/-- the appointment being accepted, besides what is held -/
def heldOr (s : Tower) (k : Uuid) (b : Blob) (x : Uuid) (y : Blob) : Prop := heldIn s x y ∨ (x = k ∧ y = b)

structure OkAdd (s : Tower) (k : Uuid) (b : Blob) (seen : List TxId) (s' : Tower) (log : List Rpc) : Prop where
  just : Just s' seen
  held : ∀ x y, heldIn s' x y → heldOr s k b x y
  sends : ∀ tx, Rpc.send tx ∈ log → JustifiedBy (heldOr s k b) seen tx

theorem ok_storeTriggered (s : Tower) (seen : List TxId) (node : Node) (k : Uuid) (a : Appt) (d : TxId)
    (hj : Just s seen) (hk : s.db.trackers k = none) (hd : d ∈ seen) (hl : locOf d = k.1) :
    OkAdd s k a.blob seen (storeTriggeredAppointment s node k a d).1 (storeTriggeredAppointment s node k a d).2 := by
  unfold storeTriggeredAppointment
  cases hdec : a.blob.decrypt d with
  | none =>
    simp only
    have sh := shrink_deleteAppointments s [k] false
    exact ⟨sh.just hj, fun x y h => Or.inl (by obtain ⟨a', h1, h2⟩ := h; exact ⟨a', sh.appts _ _ h1, h2⟩),
      fun _ h => by cases h⟩
  | some p =>
    simp only
    have j1 := just_storeAppointment s seen k a hj hk
    obtain ⟨_, _, _, h4⟩ := storeAppointment_spec s k a
    have hb : ∀ x y, heldIn (storeAppointment s k a) x y → heldOr s k a.blob x y := fun x y h => by
      rcases held_storeAppointment s k a x y h with g | g
      · exact Or.inl g
      · exact Or.inr g
    obtain ⟨j2, sh2, snd⟩ := handleBreach_spec (storeAppointment s k a) seen node k d p a.user j1
      (fun a' ha' => by rw [h4 a' ha']; exact hdec) hd hl
    have jp : JustifiedBy (heldOr s k a.blob) seen p :=
      ⟨k, a.blob, d, p, Or.inr ⟨rfl, rfl⟩, hd, hl, hdec, Or.inl rfl⟩
    have hfin : ∀ (s' : Tower), Shrink (handleBreach (storeAppointment s k a) node k d p a.user).1 s' →
        OkAdd s k a.blob seen s' (handleBreach (storeAppointment s k a) node k d p a.user).2.2 := by
      intro s' hs'
      refine ⟨hs'.just j2, fun x y h => ?_, fun tx htx => by rw [snd tx htx]; exact jp⟩
      obtain ⟨a', ha', hy⟩ := h
      have := hs'.appts x a' ha'
      rw [sh2.1] at this
      exact hb x y ⟨a', this, hy⟩
    split
    · dsimp only; exact hfin _ (shrink_deleteAppointments _ _ _)
    · dsimp only; exact hfin _ (Shrink.refl _)

/-! ### one operation -/

def opTxs : Op → List TxId
  | .connect _ _ txs => txs
  | _ => []

/-- the appointment an `add_appointment` request offers, when the tower answers it with a receipt -/
def offered (s : Tower) (node : Node) : Op → Uuid → Blob → Prop
  | .add sg l blob t u, k, b =>
    b = blob ∧ (∃ usr ui, authCheck s sg = .ok (usr, ui) ∧ k = (l, usr)) ∧
    ∃ st us av ex, (addAppointment s node sg l blob t u).2.1 = .accepted st us av ex
  | _, _, _ => False

/-- held before the operation, or offered by it and accepted -/
def heldDuring (s : Tower) (node : Node) (op : Op) (k : Uuid) (b : Blob) : Prop :=
  heldIn s k b ∨ offered s node op k b

structure StepOk (s : Tower) (node : Node) (op : Op) (seen : List TxId) (s' : Tower) (log : List Rpc) : Prop where
  just : Just s' (seen ++ opTxs op)
  held : ∀ x y, heldIn s' x y → heldDuring s node op x y
  sends : ∀ tx, Rpc.send tx ∈ log → JustifiedBy (heldDuring s node op) (seen ++ opTxs op) tx

theorem Ok.stepOk {s s' : Tower} {node : Node} {op : Op} {seen : List TxId} {log : List Rpc}
    (h : Ok s (seen ++ opTxs op) s' log) : StepOk s node op seen s' log :=
  ⟨h.just, fun x y hh => Or.inl (heldIn_of_AS h.as x y hh),
   fun tx htx => (h.sends tx htx).mono (fun _ _ hh => Or.inl hh) (fun _ hh => hh)⟩

theorem StepOk.of_nil {s s' : Tower} {node : Node} {op : Op} {seen : List TxId} {log : List Rpc} (he : opTxs op = [])
    (just : Just s' seen) (held : ∀ x y, heldIn s' x y → heldDuring s node op x y)
    (sends : ∀ tx, Rpc.send tx ∈ log → JustifiedBy (heldDuring s node op) seen tx) : StepOk s node op seen s' log := by
  refine ⟨?_, held, ?_⟩
  · rw [he, List.append_nil]; exact just
  · rw [he, List.append_nil]; exact sends

theorem addAppointment_accepted (s : Tower) (node : Node) (sg : Option User) (l : Loc) (blob : Blob) (t u : Nat)
    (usr : User) (ui : UserInfo) (hauth : authCheck s sg = .ok (usr, ui))
    (htr : (s.db.trackers (l, usr)).isSome = false) (s1 : Tower) (avail : Nat)
    (hgk : addUpdateAppointment s usr (l, usr) blob.len = (s1, some avail)) :
    (addAppointment s node sg l blob t u).2.1 = .accepted s.mem.wHeight u avail ui.expiry := by
  unfold addAppointment
  simp only [hauth, htr, Bool.false_eq_true, ↓reduceIte, hgk]

theorem stepOk_addAppointment (s : Tower) (seen : List TxId) (node : Node) (sg : Option User) (l : Loc) (blob : Blob)
    (t u : Nat) (hj : Just s seen) :
    StepOk s node (.add sg l blob t u) seen (addAppointment s node sg l blob t u).1
      (addAppointment s node sg l blob t u).2.2 := by
  have hnil : seen ++ opTxs (.add sg l blob t u) = seen := by simp [opTxs]
  have triv : ∀ (s' : Tower), Shrink s s' → StepOk s node (.add sg l blob t u) seen s' [] := by
    intro s' sh
    have o : Ok s (seen ++ opTxs (.add sg l blob t u)) s' [] := by rw [hnil]; exact sh.ok hj
    exact o.stepOk
  cases hauth : authCheck s sg with
  | error e =>
    unfold addAppointment
    simp only [hauth]
    exact triv s (Shrink.refl s)
  | ok pr =>
    obtain ⟨usr, ui⟩ := pr
    cases htr : (s.db.trackers (l, usr)).isSome with
    | true =>
      unfold addAppointment
      simp only [hauth, htr, ↓reduceIte]
      exact triv s (Shrink.refl s)
    | false =>
      have sh1 := shrink_addUpdateAppointment s usr (l, usr) blob.len
      cases hgk : addUpdateAppointment s usr (l, usr) blob.len with
      | mk s1 r =>
        rw [hgk] at sh1
        simp only at sh1
        cases r with
        | none =>
          unfold addAppointment
          simp only [hauth, htr, Bool.false_eq_true, ↓reduceIte, hgk]
          exact triv s1 sh1
        | some avail =>
          have hacc := addAppointment_accepted s node sg l blob t u usr ui hauth htr s1 avail hgk
          have hoff : offered s node (.add sg l blob t u) (l, usr) blob :=
            ⟨rfl, ⟨usr, ui, hauth, rfl⟩, _, _, _, _, hacc⟩
          have hj1 : Just s1 seen := sh1.just hj
          have hk1 : s1.db.trackers (l, usr) = none := by
            cases h : s1.db.trackers (l, usr) with
            | none => rfl
            | some t' =>
              obtain ⟨t0, h0, _⟩ := sh1.trk _ t' h
              rw [h0] at htr
              cases htr
          have conv : ∀ x y, heldOr s1 (l, usr) blob x y → heldDuring s node (.add sg l blob t u) x y := by
            intro x y h
            rcases h with ⟨a', ha', hy⟩ | ⟨hx, hy⟩
            · exact Or.inl ⟨a', sh1.appts x a' ha', hy⟩
            · subst hx; subst hy; exact Or.inr hoff
          unfold addAppointment
          simp only [hauth, htr, Bool.false_eq_true, ↓reduceIte, hgk]
          cases hc : s1.mem.cache.get l with
          | none =>
            simp only
            refine StepOk.of_nil rfl (just_storeAppointment s1 seen (l, usr) _ hj1 hk1) ?_ (fun tx h => by cases h)
            intro x y h
            rcases held_storeAppointment s1 (l, usr) _ x y h with g | g
            · exact conv x y (Or.inl g)
            · exact conv x y (Or.inr g)
          | some dispute =>
            simp only
            have hcache : s1.mem.cache.index l = some dispute := hc
            obtain ⟨hd, hl⟩ := hj1.cache l dispute hcache
            have o := ok_storeTriggered s1 seen node (l, usr)
              { loc := l, user := usr, blob := blob, tsd := t, usig := u, start := s.mem.wHeight } dispute hj1 hk1 hd hl
            exact StepOk.of_nil rfl o.just (fun x y h => conv x y (o.held x y h))
              (fun tx htx => (o.sends tx htx).mono conv (fun _ h => h))

theorem stepOk_connect (cfg : Cfg) (s : Tower) (seen : List TxId) (node : Node) (b height : Nat) (txs : List TxId)
    (hj : Just s seen) :
    StepOk s node (.connect b height txs) seen (connectBlock cfg s node b height txs).1
      (connectBlock cfg s node b height txs).2 := by
  unfold connectBlock
  simp only
  have sh0 := shrink_gkConnect cfg s height
  have o1 := ok_watcherConnect (gkConnect cfg s height) seen node b height txs (sh0.just hj)
  have o2 := ok_respConnect (watcherConnect (gkConnect cfg s height) node b height txs).1 (seen ++ txs) node b height txs o1.just
  have o := o1.trans o2
  have o' : Ok s (seen ++ opTxs (.connect b height txs)) _ _ :=
    ⟨o.just, fun x y h => sh0.appts x y (o.as x y h),
     fun tx htx => (o.sends tx htx).mono (heldIn_of_AS sh0.appts) (fun _ h => h)⟩
  exact o'.stepOk

theorem step_of_aborted (cfg : Cfg) (s : Tower) (node : Node) (op : Op) (h : s.aborted.isSome = true) :
    step cfg s node op = (s, .done, []) := by
  cases op <;> simp only [step, h, ↓reduceIte]

theorem stepOk_step (cfg : Cfg) (s : Tower) (seen : List TxId) (node : Node) (op : Op) (hj : Just s seen) :
    StepOk s node op seen (step cfg s node op).1 (step cfg s node op).2.2 := by
  have triv : ∀ (s' : Tower), opTxs op = [] → Just s' seen → AS s s' → StepOk s node op seen s' [] := by
    intro s' he j a
    have o : Ok s (seen ++ opTxs op) s' [] := by
      rw [he, List.append_nil]; exact ⟨j, a, fun _ h => by cases h⟩
    exact o.stepOk
  cases hab : s.aborted.isSome with
  | true =>
    rw [step_of_aborted cfg s node op hab]
    have o : Ok s (seen ++ opTxs op) s [] := Ok.refl (hj.mono (fun x h => List.mem_append.2 (Or.inl h)))
    exact o.stepOk
  | false =>
    cases op with
    | register u =>
      simp only [step, hab, Bool.false_eq_true, ↓reduceIte]
      exact triv _ rfl ((shrink_register cfg s u).just hj) (shrink_register cfg s u).appts
    | add sg l b t u =>
      simp only [step, hab, Bool.false_eq_true, ↓reduceIte]
      exact stepOk_addAppointment s seen node sg l b t u hj
    | get sg l =>
      simp only [step, hab, Bool.false_eq_true, ↓reduceIte]
      exact triv s rfl hj (fun _ _ h => h)
    | sub sg =>
      simp only [step, hab, Bool.false_eq_true, ↓reduceIte]
      exact triv s rfl hj (fun _ _ h => h)
    | connect b hgt txs =>
      simp only [step, hab, Bool.false_eq_true, ↓reduceIte]
      exact stepOk_connect cfg s seen node b hgt txs hj
    | disconnect b hgt =>
      simp only [step, hab, Bool.false_eq_true, ↓reduceIte]
      unfold disconnectBlock
      simp only
      have s1 : Shrink s { s with mem := { s.mem with gkHeight := hgt - 1 } } := shrink_of_eq _ _ rfl rfl rfl
      obtain ⟨j2, a2⟩ := shrink_watcherDisconnect_just _ seen b hgt (s1.just hj)
      have s3 := shrink_respDisconnect (watcherDisconnect { s with mem := { s.mem with gkHeight := hgt - 1 } } b hgt) b hgt
      exact triv _ rfl (s3.just j2) (fun x y h => s1.appts x y (a2 x y (s3.appts x y h)))

/-! ### whole histories, with a ghost record -/

/-- what a history has shown the tower and what the tower did: transactions of connected blocks,
appointments answered with a receipt, transactions handed to the node -/
structure Ghost where
  seen : List TxId
  accepted : List (Uuid × Blob)
  sent : List TxId

def sendsOf : List Rpc → List TxId
  | [] => []
  | .send t :: r => t :: sendsOf r
  | .get _ :: r => sendsOf r

theorem mem_sendsOf (tx : TxId) : ∀ (log : List Rpc), tx ∈ sendsOf log ↔ Rpc.send tx ∈ log
  | [] => by simp [sendsOf]
  | .send t :: r => by
    simp only [sendsOf, List.mem_cons, Rpc.send.injEq]
    rw [mem_sendsOf tx r]
  | .get t :: r => by
    simp only [sendsOf, List.mem_cons]
    rw [mem_sendsOf tx r]
    constructor
    · exact fun h => Or.inr h
    · rintro (h | h)
      · cases h
      · exact h

/-- the appointment accepted by an operation, if any: the request authenticated and got a receipt -/
def acceptedBy (s : Tower) (node : Node) : Op → List (Uuid × Blob)
  | .add sg l blob t u =>
    match authCheck s sg, (addAppointment s node sg l blob t u).2.1 with
    | .ok (usr, _), .accepted _ _ _ _ => [((l, usr), blob)]
    | _, _ => []
  | _ => []

theorem offered_acceptedBy (s : Tower) (node : Node) (op : Op) (k : Uuid) (b : Blob) (h : offered s node op k b) :
    (k, b) ∈ acceptedBy s node op := by
  cases op with
  | add sg l blob t u =>
    obtain ⟨hb, ⟨usr, ui, hauth, hk⟩, st, us, av, ex, hacc⟩ := h
    subst hb; subst hk
    simp only [acceptedBy, hauth, hacc, List.mem_singleton]
  | register _ => exact h.elim
  | get _ _ => exact h.elim
  | sub _ => exact h.elim
  | connect _ _ _ => exact h.elim
  | disconnect _ _ => exact h.elim

def stepG (cfg : Cfg) (sg : Tower × Ghost) (x : Node × Op) : Tower × Ghost :=
  let r := step cfg sg.1 x.1 x.2
  (r.1, { seen := sg.2.seen ++ opTxs x.2
          accepted := sg.2.accepted ++ acceptedBy sg.1 x.1 x.2
          sent := sg.2.sent ++ sendsOf r.2.2 })

def runG (cfg : Cfg) (sg : Tower × Ghost) (hist : List (Node × Op)) : Tower × Ghost := hist.foldl (stepG cfg) sg

/-- justified by the record: an accepted blob, a seen dispute with its locator -/
def JustifiedG (g : Ghost) (tx : TxId) : Prop :=
  JustifiedBy (fun k b => (k, b) ∈ g.accepted) g.seen tx

structure GInv (sg : Tower × Ghost) : Prop where
  just : Just sg.1 sg.2.seen
  held : ∀ k b, heldIn sg.1 k b → (k, b) ∈ sg.2.accepted
  sent : ∀ tx, tx ∈ sg.2.sent → JustifiedG sg.2 tx

theorem ginv_stepG (cfg : Cfg) (sg : Tower × Ghost) (x : Node × Op) (h : GInv sg) : GInv (stepG cfg sg x) := by
  obtain ⟨s, g⟩ := sg
  obtain ⟨node, op⟩ := x
  have so := stepOk_step cfg s g.seen node op h.just
  have hheld : ∀ k b, heldDuring s node op k b → (k, b) ∈ g.accepted ++ acceptedBy s node op := by
    intro k b hh
    rcases hh with hh | hh
    · exact List.mem_append.2 (Or.inl (h.held k b hh))
    · exact List.mem_append.2 (Or.inr (offered_acceptedBy s node op k b hh))
  refine ⟨so.just, fun k b hh => hheld k b (so.held k b hh), ?_⟩
  intro tx htx
  unfold stepG at htx
  simp only at htx
  rcases List.mem_append.1 htx with h1 | h1
  · exact (h.sent tx h1).mono (fun k b hh => List.mem_append.2 (Or.inl hh)) (fun _ hh => List.mem_append.2 (Or.inl hh))
  · exact (so.sends tx ((mem_sendsOf tx _).1 h1)).mono hheld (fun _ hh => hh)

theorem ginv_runG (cfg : Cfg) : ∀ (hist : List (Node × Op)) (sg : Tower × Ghost), GInv sg → GInv (runG cfg sg hist)
  | [], _, h => h
  | x :: r, sg, h => by
    unfold runG
    simp only [List.foldl_cons]
    exact ginv_runG cfg r _ (ginv_stepG cfg sg x h)

theorem runG_state (cfg : Cfg) : ∀ (hist : List (Node × Op)) (sg : Tower × Ghost),
    (runG cfg sg hist).1 = hist.foldl (fun s (x : Node × Op) => (step cfg s x.1 x.2).1) sg.1
  | [], _ => rfl
  | x :: r, sg => by
    unfold runG
    simp only [List.foldl_cons]
    exact runG_state cfg r _

/-! ### bootstrap -/

theorem cacheOk_foldl_update (seen : List TxId) : ∀ (bl : List (Nat × List TxId)) (c : TxIndex Loc TxId),
    CacheOk c seen → (∀ b, b ∈ bl → ∀ x, x ∈ b.2 → x ∈ seen) →
    CacheOk ((bl.map fun b => (b.1, b.2.map fun t => (locOf t, t))).foldl
      (fun t (b : Nat × List (Loc × TxId)) => t.update b.1 b.2) c) seen
  | [], c, h, _ => h
  | b :: r, c, h, hs => by
    simp only [List.map_cons, List.foldl_cons]
    exact cacheOk_foldl_update seen r _ (cacheOk_update h b.1 b.2 (hs b List.mem_cons_self))
      (fun b' hb' => hs b' (List.mem_cons_of_mem _ hb'))

/-- starting the tower on a database whose trackers are justified by `seen`, with the recent blocks'
transactions in `seen` -/
theorem just_boot (db : Db) (height : Nat) (blocks : List (Nat × List TxId)) (seen : List TxId)
    (hdb : TrkOk db seen) (hs : ∀ b, b ∈ blocks → ∀ x, x ∈ b.2 → x ∈ seen) : Just (boot db height blocks) seen := by
  refine ⟨hdb, ?_⟩
  unfold boot
  simp only
  unfold TxIndex.new
  simp only
  have := cacheOk_foldl_update seen (blocks.drop (blocks.length - 6))
    (TxIndex.empty (blocks.drop (blocks.length - 6)).length height) (fun _ _ h => by cases h)
    (fun b hb => hs b (List.mem_of_mem_drop hb))
  intro l d hd
  simp only [List.length_map] at hd
  exact this l d hd

end Teos
