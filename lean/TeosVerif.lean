import TeosVerif.Model.TxIndex
import TeosVerif.Model.Basic
import TeosVerif.Model.Tower
import TeosVerif.Props.C19
