import TeosVerif.Model.TxIndex
