#!/bin/sh
# usage: tools/try_seed.sh <seed-dir> <check ids...> : applies <seed-dir>/patch.diff to /repo, runs the checks
# (quick tier), prints their VIOLATION / summary lines, and undoes the change straight afterwards.
d=$1; shift
test -z "$(git -C /repo status --porcelain)" || { echo "/repo is not clean"; exit 2; }
git -C /repo apply "$d/patch.diff" || { echo "patch does not apply"; exit 2; }
cd /verif
for p in "$@"; do ./check $p 2>&1 | grep -E "VIOLATION|KNOWN|NOTE|^\[" | cut -c1-400 | head -8; done
git -C /repo checkout -- . ; git -C /repo clean -fdq
test -z "$(git -C /repo status --porcelain)" && echo "/repo restored"
