#!/usr/bin/env python3
"""usage: tools/merge_lock_traces.py <ops.txt of a conc run> <scenario name prefix>: appends the recorded `cc trace` rows of
the named scenario to lean/TeosVerif/Model/LockTraces.lean (rows already present are kept as they are). Run it deliberately,
after a new conc scenario has been reviewed; tools/gen_lock_traces.py regenerates the whole table from a thorough run."""
import sys,re
rank = {"cache": 0, "reorged": 1, "carrier": 2, "tx_index": 3, "users": 4, "db": 5, "reachable": 6}
p="/verif/lean/TeosVerif/Model/LockTraces.lean"
s=open(p).read()
new=[]
for l in open(sys.argv[1]):
    if l.startswith("cc trace "+sys.argv[2]):
        w=l.split()
        es=", ".join(("a " if e[0]=="a" else "r ")+str(rank[e[2:]]) for e in w[3:])
        row=f'  ("{w[2]}", [{es}])'
        if f'("{w[2]}"' not in s: new.append(row)
i=s.rindex("\n]\n")
s=s[:i]+"".join(",\n"+r for r in new)+s[i:]
open(p,"w").write(s); print(len(new),"added")
