#!/bin/sh
# usage: tools/verify_seed.sh <seeded dir> : confirms demo passes without the patch, fails with it,
# and the existing suite still passes with the patch. Uses a scratch worktree under /tmp.
d=$(cd "$1" && pwd); name=$(basename "$d")
wt=/tmp/wt-verify-$name
git -C /repo worktree add -q --detach "$wt" HEAD || exit 2
export CARGO_TARGET_DIR=/tmp/wt-verify-target CARGO_NET_OFFLINE=true
cd "$wt"
test_name=$(python3 -c "import json,re,sys; m=json.load(open('$d/meta.json')); c=m['demo_cmd']; print(c.split()[-1])")
pkg=$(python3 -c "import json,re; c=json.load(open('$d/meta.json'))['demo_cmd']; m=re.search(r'-p (\S+)',c); print(m.group(1) if m else 'teos')")
git apply --3way "$d/demo.diff" || { echo "demo.diff does not apply"; exit 2; }
cargo test --offline -p $pkg --lib "$test_name" > "$d/verify_demo_without_patch.log" 2>&1; r1=$?
git apply --3way "$d/patch.diff" || { echo "patch.diff does not apply"; exit 2; }
cargo test --offline -p $pkg --lib "$test_name" > "$d/verify_demo_with_patch.log" 2>&1; r2=$?
git apply -R --3way "$d/demo.diff" || git checkout -- . 
cargo test --offline --workspace > "$d/verify_suite_with_patch.log" 2>&1; r3=$?
cd /; git -C /repo worktree remove --force "$wt"
echo "$name: demo without patch rc=$r1 (want 0); demo with patch rc=$r2 (want !=0); suite with patch rc=$r3 (want 0)"
python3 - <<PY
import json
p="$d/meta.json"; m=json.load(open(p))
m["verified_by_me"]={"demo_without_patch_rc":$r1,"demo_with_patch_rc":$r2,"suite_with_patch_rc":$r3,"confirmed": ($r1==0 and $r2!=0 and $r3==0)}
json.dump(m,open(p,"w"),indent=1)
PY
