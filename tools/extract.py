#!/usr/bin/env python3
"""verif-extract: regenerates lean/TeosVerif/Gen/*.lean from /repo's current sources.

usage: extract.py <repo> <gen_dir> <baseline_dir>

Each item is a constant, a comparison/arithmetic expression or a small table located by a pattern
in a named function of a named file, translated to a Lean definition. An item that cannot be found
or translated (the code was restructured) falls back to its baseline value and is reported as
`fallback`, so that a harmless refactor does not break the build by itself; the correspondence
check still covers it. The last line of stdout is a JSON summary.
"""
import json, os, re, sys

repo, gen_dir, base_dir = sys.argv[1], sys.argv[2], sys.argv[3]
found, fallback = {}, {}


def src(path):
    try:
        return open(os.path.join(repo, path)).read()
    except OSError:
        return ""


def strip_comments(s):
    s = re.sub(r"//[^\n]*", "", s)
    return re.sub(r"/\*.*?\*/", "", s, flags=re.S)


def fn_body(text, name):
    """text of function `name` (first match), braces balanced"""
    m = re.search(r"fn\s+" + re.escape(name) + r"\b[^{;]*\{", text)
    if not m:
        return None
    i = m.end()
    depth = 1
    while i < len(text) and depth:
        if text[i] == "{":
            depth += 1
        elif text[i] == "}":
            depth -= 1
        i += 1
    return text[m.end():i - 1]


TOK = re.compile(r"\s*(>=|<=|==|!=|[-+*/()<>]|[A-Za-z_][A-Za-z0-9_:.]*(?:\(\))?|\d+)")


def translate(expr, names):
    """tiny Rust→Lean translator for arithmetic/comparison expressions over named operands;
    `as <type>` casts are dropped. Returns None when something is not understood."""
    expr = re.sub(r"\bas\s+(usize|u32|u64|i64|i32|u8|f32)\b", "", expr)
    expr = re.sub(r"\s+", " ", expr).strip()
    for k in sorted(names, key=len, reverse=True):
        expr = expr.replace(k, " " + names[k] + " ")
    out = []
    pos = 0
    while pos < len(expr):
        m = TOK.match(expr, pos)
        if not m:
            if expr[pos:].strip() == "":
                break
            return None
        t = m.group(1)
        pos = m.end()
        if re.fullmatch(r"\d+", t) or t in "+-*/()" or t in names.values():
            out.append(t)
        elif t in (">=", "<=", "<", ">"):
            out.append(t)
        elif t == "==":
            out.append("=")
        elif t == "!=":
            out.append("≠")
        else:
            return None
    return " ".join(out)


def item(name, value, baseline, note=""):
    if value is None:
        fallback[name] = note or "not found"
        return baseline
    found[name] = value if len(str(value)) < 80 else str(value)[:77] + "..."
    return value


def const(text, name, baseline):
    m = re.search(r"const\s+" + name + r"\s*:\s*\w+\s*=\s*(-?\d+)\s*;", text)
    return item(name, m.group(1) if m else None, baseline)


# ---------------------------------------------------------------- sources
tx_index = strip_comments(src("teos/src/tx_index.rs"))
constants = strip_comments(src("teos-common/src/constants.rs"))
responder = strip_comments(src("teos/src/responder.rs"))
rpc_errors = strip_comments(src("teos/src/rpc_errors.rs")) + "\n" + strip_comments(src("teos/src/errors.rs"))
gatekeeper = strip_comments(src("teos/src/gatekeeper.rs"))
dbm = strip_comments(src("teos/src/dbm.rs"))
carrier = strip_comments(src("teos/src/carrier.rs"))
main_rs = strip_comments(src("teos/src/main.rs"))
appointment = strip_comments(src("teos-common/src/appointment.rs"))
http_rs = strip_comments(src("teos/src/api/http.rs"))
errors_rs = strip_comments(src("teos-common/src/errors.rs"))

# ---------------------------------------------------------------- items
b = fn_body(tx_index, "is_full")
is_full = translate(b.strip(), {"self.blocks.len()": "len", "self.size": "size"}) if b else None
is_full = item("txIndexIsFull", is_full, "len > size")

b = fn_body(tx_index, "get_height")
m = re.search(r"Some\((.*?)\)\s*$", b.strip(), flags=re.S) if b else None
gh = translate(m.group(1), {"self.tip": "tip", "pos": "pos", "self.blocks.len()": "len", "self.size": "size"}) if m else None
gh = item("txIndexHeight", gh, "tip + pos + 1 - len")

IRR = const(constants, "IRREVOCABLY_RESOLVED", "100")
BLOB = const(constants, "ENCRYPTED_BLOB_MAX_SIZE", "2048")
RETRY = const(responder, "CONFIRMATIONS_BEFORE_RETRY", "6")
codes = {}
for n, d in [("RPC_INVALID_ADDRESS_OR_KEY", "-5"), ("RPC_DESERIALIZATION_ERROR", "-22"), ("RPC_VERIFY_ERROR", "-25"),
             ("RPC_VERIFY_REJECTED", "-26"), ("RPC_VERIFY_ALREADY_IN_CHAIN", "-27"), ("UNKNOWN_JSON_RPC_EXCEPTION", "-257")]:
    codes[n] = const(rpc_errors, n, d)

b = fn_body(gatekeeper, "has_subscription_expired")
m = re.search(r"self\s*\.\s*last_known_block_height\s*\.\s*load\(Ordering::Acquire\)\s*(>=|<=|==|!=|<|>)\s*user_info\s*\.\s*subscription_expiry", b or "")
expired = item("subscriptionExpired", f"height {m.group(1)} expiry" if m else None, "height >= expiry")

b = fn_body(gatekeeper, "outdated_among") or fn_body(gatekeeper, "get_outdated_users")
m = re.search(r"\.filter\(\|\(_,\s*info\)\|\s*(.*?)\)\s*\.map", b or "", flags=re.S)
outd = translate(m.group(1), {"block_height": "height", "info.subscription_expiry": "expiry", "self.expiry_delta": "delta"}) if m else None
outd = item("userOutdated", outd, "height >= expiry + delta")

b = fn_body(gatekeeper, "add_update_appointment")
m = re.search(r"if\s+(diff\s*(?:>=|<=|==|!=|<|>)\s*user_info\.available_slots\s+as\s+i64)", b or "")
fit = translate(m.group(1), {"diff": "diff", "user_info.available_slots": "available"}) if m else None
fit = item("slotsFit", fit, "diff <= available")

b = fn_body(responder, "check_confirmations")
m = re.search(r"if\s+(confirmations\s*(?:>=|<=|==|!=|<|>)\s*constants::IRREVOCABLY_RESOLVED)", b or "")
comp = translate(m.group(1), {"confirmations": "confirmations", "constants::IRREVOCABLY_RESOLVED": "IRREVOCABLY_RESOLVED"}) if m else None
comp = item("isCompleted", comp, "confirmations = IRREVOCABLY_RESOLVED")

b = fn_body(dbm, "load_trackers_with_confirmation_status")
m = re.search(r'if\s+confirmed\s*\{\s*"(=|<=|>=|<|>)"\s*\}\s*else\s*\{\s*"(=|<=|>=|<|>)"\s*\}', b or "")
stale = item("staleCmp", f"h {m.group(2)} bound" if m else None, "h <= bound")
conf_eq = item("confirmedCmp", (m.group(1) if m else None), "=")

# Carrier::send_transaction verdict arms: rpc code -> Rejected(code) | IrrevocablyResolved
b = fn_body(carrier, "send_transaction")
arms = None
if b:
    arms = []
    for m in re.finditer(r"rpc_errors::(\w+)\s*=>\s*\{(.*?)\n\s{16}\}", b, flags=re.S):
        name, body = m.group(1), m.group(2)
        if "IrrevocablyResolved" in body:
            arms.append((name, "resolved", None))
        else:
            r = re.search(r"Rejected\((?:rpc_errors|errors)::(\w+)\)", body)
            if r:
                arms.append((name, "rejected", r.group(1)))
    if len(arms) < 2:
        arms = None
arms = item("sendVerdictArms", arms, [("RPC_VERIFY_REJECTED", "rejected", "RPC_VERIFY_REJECTED"), ("RPC_VERIFY_ERROR", "rejected", "RPC_VERIFY_ERROR"),
                                     ("RPC_VERIFY_ALREADY_IN_CHAIN", "resolved", None), ("RPC_DESERIALIZATION_ERROR", "rejected", "RPC_DESERIALIZATION_ERROR")])

m = re.search(r"let\s+listener\s*=\s*&\((\w+),\s*&\((\w+)(?:\.clone\(\))?,\s*(\w+)\)\)", main_rs)
order = item("listenerOrder", [m.group(1), m.group(2), m.group(3)] if m else None, ["gatekeeper", "watcher", "responder"])

b = fn_body(appointment, "compute_appointment_slots")
norm = re.sub(r"\s+", "", b or "")
slots_shape = item("slotsFormulaShape", norm if norm == "(blob_sizeasf32/blob_max_sizeasf32).ceil()asu32" else None,
                   "(blob_sizeasf32/blob_max_sizeasf32).ceil()asu32", "formula text changed: model tie by correspondence only")

# HTTP layer (C15)
http_consts = {}
for n, d in [("REGISTER_BODY_LEN", "87"), ("ADD_APPOINTMENT_BODY_LEN", "2048"), ("GET_APPOINTMENT_BODY_LEN", "178"), ("GET_SUBSCRIPTION_INFO_BODY_LEN", "127")]:
    http_consts[n] = const(http_rs, n, d)
err_consts = {}
for n, d in [("MISSING_FIELD", "1"), ("EMPTY_FIELD", "2"), ("WRONG_FIELD_TYPE", "3"), ("WRONG_FIELD_SIZE", "4"), ("WRONG_FIELD_FORMAT", "5"),
             ("INVALID_REQUEST_FORMAT", "6"), ("INVALID_SIGNATURE_OR_SUBSCRIPTION_ERROR", "7"), ("SERVICE_UNAVAILABLE", "32"),
             ("APPOINTMENT_FIELD_TOO_SMALL", "33"), ("APPOINTMENT_FIELD_TOO_BIG", "34"), ("APPOINTMENT_ALREADY_TRIGGERED", "35"),
             ("APPOINTMENT_NOT_FOUND", "36"), ("REGISTRATION_RESOURCE_EXHAUSTED", "65"), ("UNEXPECTED_ERROR", "255")]:
    err_consts[n] = const(errors_rs, n, d)
# match_status: tonic code -> (http status, error constant)
b = fn_body(http_rs, "match_status")
ms = None
if b:
    ms = []
    default_status = "BAD_REQUEST"
    for m in re.finditer(r"tonic::Code::(\w+)\s*=>\s*(\{.*?\}|errors::\w+\s*,)", b, flags=re.S):
        code, body = m.group(1), m.group(2)
        st = re.search(r"status_code\s*=\s*StatusCode::(\w+)", body)
        er = re.search(r"errors::(\w+)", body)
        if er:
            ms.append((code, st.group(1) if st else default_status, er.group(1)))
    if len(ms) < 3:
        ms = None
ms = item("matchStatus", ms, [("InvalidArgument", "BAD_REQUEST", "WRONG_FIELD_FORMAT"), ("NotFound", "NOT_FOUND", "APPOINTMENT_NOT_FOUND"),
                             ("AlreadyExists", "BAD_REQUEST", "APPOINTMENT_ALREADY_TRIGGERED"), ("ResourceExhausted", "BAD_REQUEST", "REGISTRATION_RESOURCE_EXHAUSTED"),
                             ("Unauthenticated", "UNAUTHORIZED", "INVALID_SIGNATURE_OR_SUBSCRIPTION_ERROR"), ("Unavailable", "SERVICE_UNAVAILABLE", "SERVICE_UNAVAILABLE")])
HTTP_STATUS = {"BAD_REQUEST": 400, "NOT_FOUND": 404, "UNAUTHORIZED": 401, "SERVICE_UNAVAILABLE": 503, "OK": 200}

# ---------------------------------------------------------------- emit
def lean_cmp(expr):
    return f"decide ({expr})"


L = []
L.append("/- GENERATED by tools/extract.py from /repo sources on every check run. Do not edit.")
L.append("   Items the extractor could not locate fall back to the baseline (reported in the evidence). -/")
L.append("namespace Teos.Gen\n")
L.append("/-- teos/src/tx_index.rs `TxIndex::is_full` -/")
L.append(f"def txIndexIsFull (len size : Nat) : Bool := {lean_cmp(is_full)}\n")
L.append("/-- teos/src/tx_index.rs `TxIndex::get_height` -/")
L.append(f"def txIndexHeight (tip pos len : Nat) : Nat := {gh}\n")
L.append("/-- teos-common/src/constants.rs -/")
L.append(f"def IRREVOCABLY_RESOLVED : Nat := {IRR}")
L.append(f"def ENCRYPTED_BLOB_MAX_SIZE : Nat := {BLOB}\n")
L.append("/-- teos/src/responder.rs -/")
L.append(f"def CONFIRMATIONS_BEFORE_RETRY : Nat := {RETRY}\n")
L.append("/-- teos/src/rpc_errors.rs -/")
for n, v in codes.items():
    L.append(f"def {n} : Int := {v}")
L.append("\n/-- teos/src/gatekeeper.rs `has_subscription_expired` -/")
L.append(f"def subscriptionExpired (height expiry : Nat) : Bool := {lean_cmp(expired)}\n")
L.append("/-- teos/src/gatekeeper.rs `outdated_among` (the filter of `get_outdated_users` and of the block handler) -/")
L.append(f"def userOutdated (height expiry delta : Nat) : Bool := {lean_cmp(outd)}\n")
L.append("/-- teos/src/gatekeeper.rs `add_update_appointment` -/")
L.append(f"def slotsFit (diff available : Int) : Bool := {lean_cmp(fit)}\n")
L.append("/-- teos/src/responder.rs `check_confirmations` -/")
L.append(f"def isCompleted (confirmations : Nat) : Bool := {lean_cmp(comp)}\n")
L.append("/-- teos/src/dbm.rs `load_trackers_with_confirmation_status` (unconfirmed trackers) -/")
L.append(f"def staleCmp (h bound : Nat) : Bool := {lean_cmp(stale)}")
L.append("/-- … and for confirmed trackers -/")
L.append(f"def confirmedCmp (h bound : Nat) : Bool := decide (h {conf_eq} bound)\n")
L.append("/-- teos/src/carrier.rs `send_transaction`: what an RPC error code becomes -/")
L.append("inductive Arm where\n  | rejected (code : Int)\n  | resolved\nderiving DecidableEq, Repr\n")
L.append("def sendVerdictArms : List (Int × Arm) := [")
L.append(",\n".join(f"  ({n}, " + (f".rejected {c}" if k == "rejected" else ".resolved") + ")" for n, k, c in arms))
L.append("]\n")
L.append("/-- teos/src/main.rs: the order in which the chain listeners are called -/")
L.append("def listenerOrder : List String := [" + ", ".join(f'"{x}"' for x in order) + "]\n")
L.append("/-- teos-common/src/appointment.rs `compute_appointment_slots` has the shape the model translates -/")
L.append(f"def slotsFormulaShape : String := \"{slots_shape}\"\n")
L.append("/-- teos/src/api/http.rs body limits -/")
for n, v in http_consts.items():
    L.append(f"def {n} : Nat := {v}")
L.append("\n/-- teos-common/src/errors.rs -/")
for n, v in err_consts.items():
    L.append(f"def {n} : Nat := {v}")
L.append("\n/-- teos/src/api/http.rs `match_status`: gRPC code name → (HTTP status, error code) -/")
L.append("def matchStatus : List (String × Nat × Nat) := [")
L.append(",\n".join(f'  ("{c}", {HTTP_STATUS.get(st, 0)}, {e})' for c, st, e in ms))
L.append("]\n")
L.append("end Teos.Gen")
text = "\n".join(L) + "\n"
os.makedirs(gen_dir, exist_ok=True)
path = os.path.join(gen_dir, "Consts.lean")
old = open(path).read() if os.path.exists(path) else ""
if old != text:
    open(path, "w").write(text)
# drift report against the committed baseline
base = os.path.join(base_dir, "Consts.lean.txt")
drift = os.path.exists(base) and open(base).read() != text
# ---------------------------------------------------------------- call sites: Gen/Calls.lean
# Which functions of the tower call the functions the model gives a special role to. The model's
# theorems enumerate these call sites; a new caller (or a moved one) changes the generated lists and
# breaks the theorems that pin them (C01, C02, C04).
def blank_comments_and_literals(t):
    """comments removed, the contents of string and character literals blanked (so that braces, `//` and
    quotes inside them cannot confuse the structure analysis)"""
    out, i, n = [], 0, len(t)
    while i < n:
        c = t[i]
        if t.startswith("//", i):
            while i < n and t[i] != "\n":
                i += 1
        elif t.startswith("/*", i):
            depth, i = 1, i + 2
            while i < n and depth:
                if t.startswith("/*", i):
                    depth, i = depth + 1, i + 2
                elif t.startswith("*/", i):
                    depth, i = depth - 1, i + 2
                else:
                    i += 1
        elif c == '"' or (c == "r" and re.match(r'r#*"', t[i:]) and (i == 0 or not (t[i - 1].isalnum() or t[i - 1] == "_"))):
            if c == "r":
                m = re.match(r'r(#*)"', t[i:])
                close = '"' + m.group(1)
                j = t.find(close, i + len(m.group(0)))
                j = n if j < 0 else j + len(close)
            else:
                j = i + 1
                while j < n and t[j] != '"':
                    j += 2 if t[j] == "\\" else 1
                j += 1
            out.append('""')
            i = j
        elif c == "'":
            m = re.match(r"'(\\.[^']*|[^\\'])'", t[i:])
            if m:
                out.append("' '")
                i += len(m.group(0))
            else:
                out.append(c)       # a lifetime
                i += 1
        else:
            out.append(c)
            i += 1
    return "".join(out)


def non_test(path):
    t = blank_comments_and_literals(src(path))
    # the test module (an item-level `#[cfg(test)]` on a single function does not end the file)
    m = re.search(r"#\[cfg\(test\)\]\s*(?:pub\s+)?mod\s", t)
    return t if not m else t[:m.start()]


def functions(text):
    """[(name, body_start, body_end)] of every `fn` with a body"""
    out = []
    for m in re.finditer(r"\bfn\s+(\w+)\b[^{;]*\{", text):
        i, depth = m.end(), 1
        while i < len(text) and depth:
            depth += (text[i] == "{") - (text[i] == "}")
            i += 1
        out.append((m.group(1), m.end(), i - 1))
    return out


def callers(files, pattern, arg=None):
    res = []
    for stem, path in files:
        t = non_test(path)
        fns = functions(t)
        for m in re.finditer(pattern, t):
            encl = [(st, n) for n, st, en in fns if st <= m.start() < en]
            name = max(encl)[1] if encl else "?"      # innermost enclosing function
            extra = ""
            if arg:
                am = re.match(arg, t[m.end():], flags=re.S)
                extra = am.group(1) if am else "?"
            res.append((stem, name, extra))
    return res


def cq(x):
    return '"' + x.replace("\\", "\\\\").replace('"', '\\"') + '"'


tower_files = [("carrier", "teos/src/carrier.rs"), ("responder", "teos/src/responder.rs"), ("watcher", "teos/src/watcher.rs"),
               ("gatekeeper", "teos/src/gatekeeper.rs"), ("chain_monitor", "teos/src/chain_monitor.rs"),
               ("internal", "teos/src/api/internal.rs"), ("http", "teos/src/api/http.rs"), ("main", "teos/src/main.rs")]
calls = [
    ("sendRaw", callers(tower_files, r"\.send_raw_transaction\(")),
    ("getRaw", callers(tower_files, r"\.get_raw_transaction_info\(")),
    ("carrierSend", callers(tower_files, r"\.send_transaction\(")),
    ("carrierInMempool", callers(tower_files, r"\.in_mempool\(")),
    ("handleBreach", callers(tower_files, r"\.handle_breach\(")),
    ("addTracker", callers(tower_files, r"\.add_tracker\(")),
    ("deleteAppointments", callers(tower_files, r"\.delete_appointments\(", r"[^;]*?,\s*(true|false)\s*\)")),
    ("removeUsers", callers(tower_files, r"\.batch_remove_users\(")),
    ("storeTracker", callers(tower_files, r"\.store_tracker\(")),
    ("updateTrackerStatus", callers(tower_files, r"\.update_tracker_status\(")),
    # the blocks main.rs hands to the two look-ups at start-up (the harness boots the components itself and passes the
    # very same slices: ./check hands it the watcher's)
    ("watcherBoot", callers(tower_files, r"\bWatcher::new\(", r"\s*[^,]*,\s*[^,]*,\s*([^,]*?)\s*,")),
    ("responderBoot", callers(tower_files, r"\bResponder::new\(", r"\s*([^,]*?)\s*,")),
]
cpath = os.path.join(gen_dir, "Calls.lean")
cbase = os.path.join(base_dir, "Calls.lean.txt")
if all(l for _, l in calls) and not any(n == "?" or x == "?" for _, l in calls for _, n, x in l):
    C = ["/- GENERATED by tools/extract.py from the non-test source of teos/src: which function calls which",
         "   (file, enclosing function, literal argument where one is recorded). Do not edit. -/",
         "namespace Teos.Gen.Calls", ""]
    for name, l in calls:
        C.append(f"def {name} : List (String × String × String) := [" + ", ".join(f"({cq(a)}, {cq(b)}, {cq(c)})" for a, b, c in l) + "]")
    C += ["", "end Teos.Gen.Calls"]
    t = "\n".join(C) + "\n"
    if not os.path.exists(cpath) or open(cpath).read() != t:
        open(cpath, "w").write(t)
    found["calls"] = str(sum(len(l) for _, l in calls))
    if os.path.exists(cbase) and open(cbase).read() != t:
        found["calls_differs_from_baseline"] = "true"
elif os.path.exists(cbase):
    fallback["calls"] = "call sites not located; baseline used"
    if not os.path.exists(cpath) or open(cpath).read() != open(cbase).read():
        open(cpath, "w").write(open(cbase).read())

# ---------------------------------------------------------------- the client's call sites: Gen/PluginCalls.lean
plugin_files = [("main", "watchtower-plugin/src/main.rs"), ("retrier", "watchtower-plugin/src/retrier.rs"),
                ("wt_client", "watchtower-plugin/src/wt_client.rs")]
pcalls = [
    ("setStatus", callers(plugin_files, r"\.set_tower_status\(", r"[^;]*?TowerStatus::(\w+)")),
    ("addPending", callers(plugin_files, r"\.add_pending_appointment\(")),
    ("addInvalid", callers(plugin_files, r"\.add_invalid_appointment\(")),
    ("removePending", callers(plugin_files, r"\.remove_pending_appointment\(")),
    ("addReceipt", callers(plugin_files, r"\.add_appointment_receipt\(")),
    ("flagMisbehaving", callers(plugin_files, r"\.flag_misbehaving_tower\(")),
    ("addUpdateTower", callers(plugin_files, r"\.add_update_tower\(")),
    ("removeTower", callers(plugin_files, r"\.remove_tower\(")),
    ("retrierStatus", callers(plugin_files, r"\.set_status\(", r"\s*RetrierStatus::(\w+)")),
    ("spawn", callers(plugin_files[1:2], r"tokio::spawn\(")),
    ("startRetrying", callers(plugin_files, r"\.start_retrying\(")),
    ("retrierStart", callers(plugin_files, r"retrier\.start\(")),
]
# the order in which `Retrier::run` records an answer and releases the pending copy (textual order of the calls)
_rt = non_test("watchtower-plugin/src/retrier.rs")
_rfns = functions(_rt)
run_order = []
for _m in re.finditer(r"\.(add_appointment_receipt|add_invalid_appointment|remove_pending_appointment|flag_misbehaving_tower)\(", _rt):
    _encl = [(st, n) for n, st, en in _rfns if st <= _m.start() < en]
    if _encl and max(_encl)[1] == "run":
        run_order.append(_m.group(1))
plib = strip_comments(src("watchtower-plugin/src/lib.rs"))
m = re.search(r"pub enum TowerStatus\s*\{(.*?)\}", plib, flags=re.S)
status_variants = re.findall(r"(\w+)\s*,", m.group(1)) if m else []
m = re.search(r"impl fmt::Display for TowerStatus.*?match self\s*\{(.*?)\}", plib, flags=re.S)
status_names = re.findall(r"TowerStatus::(\w+)\s*=>\s*\"([^\"]+)\"", m.group(1)) if m else []
b = fn_body(plib, "is_retryable")
retryable = re.findall(r"self\.is_(\w+)\(\)", b) if b else []
ppath = os.path.join(gen_dir, "PluginCalls.lean")
pbase = os.path.join(base_dir, "PluginCalls.lean.txt")
if all(l for _, l in pcalls) and not any(n == "?" or x == "?" for _, l in pcalls for _, n, x in l) and status_variants and status_names and retryable:
    C = ["/- GENERATED by tools/extract.py from the non-test source of watchtower-plugin/src: which function of the",
         "   client changes a tower's status (and to what), records or moves an appointment, flags a tower;",
         "   the `TowerStatus` variants, their display names and which of them `is_retryable`. Do not edit. -/",
         "namespace Teos.Gen.PluginCalls", ""]
    for name, l in pcalls:
        C.append(f"def {name} : List (String × String × String) := [" + ", ".join(f"({cq(a)}, {cq(b_)}, {cq(c)})" for a, b_, c in l) + "]")
    C.append("def statusVariants : List String := [" + ", ".join(cq(v) for v in status_variants) + "]")
    C.append("def statusNames : List (String × String) := [" + ", ".join(f"({cq(a)}, {cq(b_)})" for a, b_ in status_names) + "]")
    C.append("def retryable : List String := [" + ", ".join(cq(v) for v in retryable) + "]")
    C.append("/-- `Retrier::run`: the calls that record a tower's answer / release the pending copy, in source order -/")
    C.append("def retrierRunOrder : List String := [" + ", ".join(cq(v) for v in run_order) + "]")
    C += ["", "end Teos.Gen.PluginCalls"]
    t = "\n".join(C) + "\n"
    if not os.path.exists(ppath) or open(ppath).read() != t:
        open(ppath, "w").write(t)
    found["plugin_calls"] = str(sum(len(l) for _, l in pcalls))
    if os.path.exists(pbase) and open(pbase).read() != t:
        found["plugin_calls_differs_from_baseline"] = "true"
elif os.path.exists(pbase):
    fallback["plugin_calls"] = "call sites not located; baseline used"
    if not os.path.exists(ppath) or open(ppath).read() != open(pbase).read():
        open(ppath, "w").write(open(pbase).read())

print(json.dumps({"found": len(found), "fallback": fallback, "differs_from_baseline": bool(drift), "items": found}))

# ================================================================ configuration (C20): Gen/Config.lean
config_rs = strip_comments(src("teos/src/config.rs"))
cfound, cfallback = {}, {}

def citem(name, value, baseline, note=""):
    if value is None:
        cfallback[name] = note or "not found"
        return baseline
    cfound[name] = True
    return value

# Config fields (struct order) and defaults
m = re.search(r"pub struct Config\s*\{(.*?)\n\}", config_rs, flags=re.S)
fields = re.findall(r"pub\s+(\w+)\s*:\s*([\w<>]+)\s*,", m.group(1)) if m else None
fields = citem("configFields", fields, None)
b = None
m = re.search(r"impl Default for Config\s*\{.*?fn default\(\)\s*->\s*Self\s*\{\s*Self\s*\{(.*?)\}\s*\}\s*\}", config_rs, flags=re.S)
defaults = None
if m:
    defaults = {}
    for k, v in re.findall(r"(\w+)\s*:\s*([^,\n]+?)\s*,", m.group(1)):
        v = v.strip()
        if v == "String::new()":
            v = ""
        elif v.endswith(".into()"):
            v = v[:-len(".into()")].strip().strip('"')
        defaults[k] = v
defaults = citem("configDefaults", defaults, None)
# patch rules
b = fn_body(config_rs, "patch_with_options")
rules = None
if b is not None and fields:
    rules = {}
    for f, _ in fields:
        if re.search(r"if\s+options\." + f + r"\.is_some\(\)\s*\{\s*self\." + f + r"\s*=\s*options\." + f + r"\.unwrap\(\);\s*\}", b):
            rules[f] = "cliOption"
        elif re.search(r"self\." + f + r"\s*\|=\s*options\." + f + r"\s*;", b):
            rules[f] = "orFlag"
        elif re.search(r"self\." + f + r"\s*=\s*options\." + f + r"\s*;", b):
            rules[f] = "cliOnly"
        elif re.search(r"\b" + f + r"\b", b):
            rules = None  # mentioned in a form the translator does not understand
            break
        else:
            rules[f] = "fileOnly"
rules = citem("patchRules", rules, None, "patch_with_options has a shape the translator does not understand")
# CLI options (struct Opt)
m = re.search(r"pub struct Opt\s*\{(.*?)\n\}", config_rs, flags=re.S)
opts = re.findall(r"pub\s+(\w+)\s*:", m.group(1)) if m else None
opts = citem("cliOptions", opts, None)
# auth table
b = fn_body(config_rs, "get_auth_method")
auth = None
if b:
    arms = re.findall(r"\((true|false),\s*(true|false),\s*(true|false)\)\s*=>\s*AuthMethod::(\w+)", b)
    dflt = re.search(r"_\s*=>\s*AuthMethod::(\w+)", b)
    order = re.search(r"match\s*\(\s*self\.(\w+)\.is_empty\(\),\s*self\.(\w+)\.is_empty\(\),\s*self\.(\w+)\.is_empty\(\),?\s*\)", b)
    if arms and dflt and order and [order.group(1), order.group(2), order.group(3)] == ["btc_rpc_user", "btc_rpc_password", "btc_rpc_cookie"]:
        table = {}
        for a in arms:
            table[(a[0], a[1], a[2])] = a[3]
        auth = []
        for u in ("true", "false"):
            for p in ("true", "false"):
                for c in ("true", "false"):
                    auth.append((u, p, c, table.get((u, p, c), dflt.group(1))))
auth = citem("authTable", auth, None)
# which auth methods verify() refuses
b = fn_body(config_rs, "verify")
refused = re.findall(r"auth_method\s*==\s*AuthMethod::(\w+)\s*\{\s*return Err", b or "")
refused = citem("authRefused", refused if refused else None, None)
nets = re.findall(r'"(\w+)"\s*=>\s*(\d+)\s*,', b or "")
nets = citem("networkPorts", nets if nets else None, None)
m = re.search(r'if\s*\[([^\]]*)\]\.contains\(&self\.btc_network\.as_str\(\)\)\s*\{\s*self\.btc_network\s*=\s*self\.btc_network\.trim_end_matches\("(\w+)"\)', b or "")
trim = citem("networkTrim", ([x.strip().strip('"') for x in m.group(1).split(",")], m.group(2)) if m else None, None)
m = re.search(r"if\s+self\.btc_rpc_port\s*==\s*(\d+)\s*\{\s*self\.btc_rpc_port\s*=\s*default_rpc_port", b or "")
sentinel = citem("portSentinel", m.group(1) if m else None, None)

cfg_path = os.path.join(gen_dir, "Config.lean")
cfg_base = os.path.join(base_dir, "Config.lean.txt")
if not cfallback:
    def q(s):
        return '"' + s.replace("\\", "\\\\").replace('"', '\\"') + '"'
    C = ["/- GENERATED by tools/extract.py from teos/src/config.rs on every check run. Do not edit. -/",
         "namespace Teos.Gen\n",
         "/-- how `Config::patch_with_options` treats a field -/",
         "inductive PatchRule where\n  | cliOption   -- `if options.f.is_some() { self.f = options.f.unwrap() }`\n  | orFlag      -- `self.f |= options.f`\n  | cliOnly     -- `self.f = options.f`\n  | fileOnly    -- not touched by the command line\nderiving DecidableEq, Repr\n",
         "/-- every field of `Config`: name, default (`impl Default`), patch rule -/",
         "def configFields : List (String × String × PatchRule) := ["]
    C.append(",\n".join(f"  ({q(f)}, {q(defaults.get(f, '?'))}, .{rules[f]})" for f, _ in fields))
    C.append("]\n")
    C.append("/-- the fields of the command-line struct `Opt` -/")
    C.append("def cliOptions : List String := [" + ", ".join(q(o) for o in opts) + "]\n")
    C.append("/-- `Config::get_auth_method`: (user empty, password empty, cookie empty) ↦ method -/")
    C.append("def authTable : List (Bool × Bool × Bool × String) := [")
    C.append(",\n".join(f"  ({u}, {p}, {c}, {q(mth)})" for u, p, c, mth in auth))
    C.append("]\n")
    C.append("/-- methods `Config::verify` refuses -/")
    C.append("def authRefused : List String := [" + ", ".join(q(x) for x in refused) + "]\n")
    C.append("/-- `Config::verify`: network (after normalisation) ↦ default RPC port -/")
    C.append("def networkPorts : List (String × Nat) := [" + ", ".join(f"({q(n)}, {p})" for n, p in nets) + "]\n")
    C.append("/-- names normalised by dropping the given suffix -/")
    C.append("def networkTrimmed : List String := [" + ", ".join(q(x) for x in trim[0]) + "]")
    C.append(f"def networkTrimSuffix : String := {q(trim[1])}\n")
    C.append(f"/-- the value of `btc_rpc_port` that means \"not set\" -/\ndef portSentinel : Nat := {sentinel}\n")
    C.append("end Teos.Gen")
    ctext = "\n".join(C) + "\n"
    if not os.path.exists(cfg_path) or open(cfg_path).read() != ctext:
        open(cfg_path, "w").write(ctext)
elif os.path.exists(cfg_base) and not os.path.exists(cfg_path):
    open(cfg_path, "w").write(open(cfg_base).read())
elif os.path.exists(cfg_base):
    # keep the baseline: config.rs has a shape the translator does not understand
    if open(cfg_path).read() != open(cfg_base).read():
        open(cfg_path, "w").write(open(cfg_base).read())
print(json.dumps({"found": len(found) + len(cfound), "fallback": {**fallback, **cfallback},
                  "differs_from_baseline": bool(drift), "items": found}))

# ================================================================ crypto recipe (C17): Gen/Crypto.lean
crypto_rs = strip_comments(src("teos-common/src/cryptography.rs"))
def recipe(fn):
    b = fn_body(crypto_rs, fn)
    if not b:
        return None
    nonce = re.search(r"let\s+nonce\s*=\s*([^;]+);", b)
    key = re.search(r"let\s+k\s*=\s*([^;]+);", b)
    use = re.search(r"Key::from_slice\(\s*([^)]*)\)", b)
    if not (nonce and key and use):
        return None
    norm = lambda x: re.sub(r"\s+", "", x)
    return (norm(key.group(1)), norm(use.group(1)), norm(nonce.group(1)))
enc_r, dec_r = recipe("encrypt"), recipe("decrypt")
b = fn_body(crypto_rs, "encrypt") or ""
enc_ser = "consensus::serialize" in b and re.search(r"cypher\.encrypt\(&nonce,\s*consensus::serialize\(message\)\.as_ref\(\)\)", re.sub(r"\s+", " ", b)) is not None
b = fn_body(crypto_rs, "decrypt") or ""
dec_deser = re.search(r"cypher\.decrypt\(&nonce,\s*encrypted_blob\.as_ref\(\)\)", re.sub(r"\s+", " ", b)) is not None and "consensus::deserialize(&tx_bytes)" in b
b = fn_body(strip_comments(src("teos-common/src/appointment.rs")), "new") or ""
loc = re.search(r"txid\[\.\.LOCATOR_LEN\]", b) is not None
m = re.search(r"pub const LOCATOR_LEN\s*:\s*usize\s*=\s*(\d+)\s*;", strip_comments(src("teos-common/src/appointment.rs")))
b = fn_body(crypto_rs, "verify") or ""
ver = re.sub(r"\s+", "", b) == "message_signing::recover_pk(msg,sig).map_or_else(|_|false,|x|x==*pk)"
cr_path = os.path.join(gen_dir, "Crypto.lean")
cr_base = os.path.join(base_dir, "Crypto.lean.txt")
if enc_r and dec_r and m:
    def q(s):
        return '"' + s.replace("\\", "\\\\").replace('"', '\\"') + '"'
    T = ["/- GENERATED by tools/extract.py from teos-common/src/cryptography.rs and appointment.rs. Do not edit. -/",
         "namespace Teos.Gen\n",
         "/-- how `encrypt` / `decrypt` derive key and nonce: (key derivation, what is handed to `Key::from_slice`, nonce) -/",
         f"def encRecipe : String × String × String := ({q(enc_r[0])}, {q(enc_r[1])}, {q(enc_r[2])})",
         f"def decRecipe : String × String × String := ({q(dec_r[0])}, {q(dec_r[1])}, {q(dec_r[2])})",
         "/-- `encrypt` seals `consensus::serialize(message)`; `decrypt` opens the blob and `consensus::deserialize`s the plaintext -/",
         f"def encSerialises : Bool := {'true' if enc_ser else 'false'}",
         f"def decDeserialises : Bool := {'true' if dec_deser else 'false'}",
         "/-- `Locator::new(txid)` takes `txid[..LOCATOR_LEN]` -/",
         f"def locatorIsPrefix : Bool := {'true' if loc else 'false'}",
         f"def LOCATOR_LEN : Nat := {m.group(1)}",
         "/-- `verify(msg, sig, pk)` is `recover_pk(msg, sig) == Ok(pk)` -/",
         f"def verifyIsRecoverEq : Bool := {'true' if ver else 'false'}\n",
         "end Teos.Gen"]
    t = "\n".join(T) + "\n"
    if not os.path.exists(cr_path) or open(cr_path).read() != t:
        open(cr_path, "w").write(t)
elif os.path.exists(cr_base):
    if not os.path.exists(cr_path) or open(cr_path).read() != open(cr_base).read():
        open(cr_path, "w").write(open(cr_base).read())
    print(json.dumps({"found": len(found) + len(cfound), "fallback": {**fallback, **cfallback, "cryptoRecipe": "not found"},
                      "differs_from_baseline": bool(drift), "items": found}))

# ================================================================ wire format (C16): Gen/Wire.lean
def lq(s):
    return '"' + s.replace("\\", "\\\\").replace('"', '\\"') + '"'

build_rs = strip_comments(src("teos-common/build.rs"))
# serde attributes injected into the generated types: field -> adapter
adapters = []
for fld, attr in re.findall(r'\.field_attribute\(\s*"([^"]+)"\s*,\s*"((?:[^"\\]|\\.)*)"', build_rs, flags=re.S):
    attr = attr.replace('\\"', '"')
    m1 = re.search(r'with\s*=\s*"([^"]+)"', attr)
    m2 = re.search(r'rename\s*=\s*"([^"]+)"', attr)
    if m1:
        a = {"hex::serde": "hex", "crate::ser::serde_be": "hexBE", "crate::ser::serde_vec_bytes": "vecHex",
             "crate::ser::serde_status": "status"}.get(m1.group(1), "unknown:" + m1.group(1))
        adapters.append((fld.split(".")[-1], a))
    elif m2:
        adapters.append((fld.split(".")[-1], "rename:" + m2.group(1)))
    elif "flatten" in attr:
        adapters.append((fld.split(".")[-1], "flatten"))
# messages and their fields from the .proto files
messages = []
for pf in ("teos-common/proto/common/teos/v2/appointment.proto", "teos-common/proto/common/teos/v2/user.proto"):
    t = re.sub(r"/\*.*?\*/", "", src(pf), flags=re.S)
    t = re.sub(r"//.*", "", t)
    for name, body in re.findall(r"message\s+(\w+)\s*\{((?:[^{}]|\{[^{}]*\})*)\}", t, flags=re.S):
        body_flat = re.sub(r"enum\s+\w+\s*\{[^{}]*\}", "", body)
        oneof = re.search(r"oneof\s+(\w+)\s*\{([^{}]*)\}", body_flat)
        fields = []
        if oneof:
            fields.append((oneof.group(1), "oneof"))
            body_flat = body_flat.replace(oneof.group(0), "")
        for rep, ty, fn in re.findall(r"(repeated\s+)?([\w.]+)\s+(\w+)\s*=\s*\d+\s*;", body_flat):
            fields.append((fn, ("repeated " if rep else "") + ty))
        messages.append((name, fields))
# status names (Display) and their parsing (FromStr)
app_rs = strip_comments(src("teos-common/src/appointment.rs"))
variants = dict((n, int(v)) for n, v in re.findall(r"(\w+)\s*=\s*(\d+)\s*,", re.search(r"pub enum AppointmentStatus\s*\{(.*?)\}", app_rs, flags=re.S).group(1)))
disp = re.search(r"impl fmt::Display for AppointmentStatus.*?match self\s*\{(.*?)\};", app_rs, flags=re.S)
status_show = [(variants[v], s) for v, s in re.findall(r"AppointmentStatus::(\w+)\s*=>\s*\"([^\"]+)\"", disp.group(1))] if disp else []
frm = re.search(r"impl std::str::FromStr for AppointmentStatus.*?match s\s*\{(.*?)\n\s*\}\s*\n\s*\}", app_rs, flags=re.S)
status_parse = [(s, variants[v]) for s, v in re.findall(r"\"([^\"]+)\"\s*=>\s*Ok\(AppointmentStatus::(\w+)\)", frm.group(1))] if frm else []
# signed byte layouts: order and kind of the fields in the three to_vec functions
def layout(text, type_name):
    m = re.search(r"impl " + type_name + r"\s*\{(.*?)\n\}", text, flags=re.S)
    b = fn_body(m.group(1), "to_vec") if m else None
    if not b:
        return None
    out = []
    for fld, rest in re.findall(r"self\.(\w+)((?:\.\w+\(\))*)", b):
        if "to_be_bytes" in rest:
            out.append((fld, "be32"))
        elif "as_bytes" in rest:
            out.append((fld, "var"))
        elif fld == "locator":
            out.append((fld, "fixed16"))
        elif fld == "user_id":
            out.append((fld, "fixed33"))
        else:
            out.append((fld, "var"))
    return out
rc_rs = strip_comments(src("teos-common/src/receipts.rs"))
layouts = [("Appointment", layout(app_rs, "Appointment")), ("RegistrationReceipt", layout(rc_rs, "RegistrationReceipt")),
           ("AppointmentReceipt", layout(rc_rs, "AppointmentReceipt"))]
# the client's untagged answer type
plug_http = strip_comments(src("watchtower-plugin/src/net/http.rs"))
m = re.search(r"pub struct ApiError\s*\{(.*?)\}", plug_http, flags=re.S)
api_error_fields = re.findall(r"pub\s+(\w+)\s*:", m.group(1)) if m else []
m = re.search(r"#\[serde\(untagged\)\]\s*pub enum ApiResponse<T>\s*\{(.*?)\}", plug_http, flags=re.S)
api_variants = re.findall(r"(\w+)\(", m.group(1)) if m else []
wire_ok = adapters and messages and status_show and status_parse and all(l for _, l in layouts) and api_error_fields and api_variants
wpath = os.path.join(gen_dir, "Wire.lean")
wbase = os.path.join(base_dir, "Wire.lean.txt")
if wire_ok:
    W = ["/- GENERATED by tools/extract.py from teos-common/build.rs, the .proto files, appointment.rs, receipts.rs",
         "   and watchtower-plugin/src/net/http.rs. Do not edit. -/",
         "namespace Teos.Gen.Wire\n",
         "/-- serde attributes injected by build.rs: field name → adapter -/",
         "def adapters : List (String × String) := [" + ", ".join(f"({lq(a)}, {lq(b)})" for a, b in adapters) + "]\n",
         "/-- protobuf messages: name → fields (name, type) -/",
         "def messages : List (String × List (String × String)) := [",
         ",\n".join("  (" + lq(n) + ", [" + ", ".join(f"({lq(f)}, {lq(t)})" for f, t in fs) + "])" for n, fs in messages),
         "]\n",
         "/-- `AppointmentStatus`: Display and FromStr -/",
         "def statusShow : List (Nat × String) := [" + ", ".join(f"({n}, {lq(s)})" for n, s in status_show) + "]",
         "def statusParse : List (String × Nat) := [" + ", ".join(f"({lq(s)}, {n})" for s, n in status_parse) + "]\n",
         "/-- the byte strings that get signed: fields in order with their encoding -/",
         "def layouts : List (String × List (String × String)) := [",
         ",\n".join("  (" + lq(n) + ", [" + ", ".join(f"({lq(f)}, {lq(k)})" for f, k in l) + "])" for n, l in layouts),
         "]\n",
         "/-- the client's `ApiResponse<T>` (untagged): variants in the order serde tries them, and the fields of `ApiError` -/",
         "def apiResponseVariants : List String := [" + ", ".join(lq(v) for v in api_variants) + "]",
         "def apiErrorFields : List String := [" + ", ".join(lq(v) for v in api_error_fields) + "]\n",
         "end Teos.Gen.Wire"]
    t = "\n".join(W) + "\n"
    if not os.path.exists(wpath) or open(wpath).read() != t:
        open(wpath, "w").write(t)
elif os.path.exists(wbase):
    if not os.path.exists(wpath) or open(wpath).read() != open(wbase).read():
        open(wpath, "w").write(open(wbase).read())
