#!/usr/bin/env python3
"""Regenerates MANIFEST.json from tools/props_table.py + the claim texts below."""
import json, os, sys
ROOT = os.path.dirname(os.path.dirname(os.path.abspath(__file__)))
sys.path.insert(0, os.path.join(ROOT, "tools"))
from props_table import PROPS
from claims import CLAIMS, NOT_CLAIMED, HOOK_COMMITS

def chk(pid):
    c = CLAIMS[pid]
    return {"property_id": pid, "quick_cmd": f"./check {pid} --tier quick", "thorough_cmd": f"./check {pid} --tier thorough",
            "evidence_file": f"evidence/{pid}.json", "replay_cmd_template": f"./check {pid} --replay {{path}}", "engine": "lean-model",
            "level_claimed": {"category": "proof", "text": c["text"], "design_ref": f"DESIGN.md section 6 {pid} (design) and section 12 (as built)"},
            "level_note": c["note"], "technique": c["technique"]}

claimed = sorted(p for p in CLAIMS if p in PROPS)
m = {
    "version": 1,
    "setup_cmd": "./setup.sh",
    "hooks": {
        "guard": "cargo feature `verif` (teos and teos-common crates; off by default). Not add-only: hook H5 rewrote the `use std::sync::{Mutex, Condvar}` lines of carrier, chain_monitor, gatekeeper, responder, watcher, api/internal and main.rs to `use crate::vsync::...`, which re-exports std::sync when the feature is off (DESIGN.md 12.3)",
        "enable": "the harness depends on /repo/teos with features=[\"verif\"] (harness/Cargo.toml); `cargo build --offline` in /verif/harness rebuilds /repo's crates from the working tree",
        "baseline_off_cmd": "cd /repo && (cargo nextest run --workspace --no-fail-fast --test-threads 8 --offline || cargo test --workspace --no-fail-fast --offline)",
        "source_commits": HOOK_COMMITS,
        "add_only": False,
    },
    "engines": [
        {"name": "lean-model", "path": "lean/", "serves_properties": claimed,
         "kind_free_text": "Lean 4 lake project TeosVerif: Model/ (executable model, core Lean), Gen/ (regenerated from /repo by tools/extract.py), Lemmas/, Props/<ID>.lean (theorems), compiled driver teos_model"},
        {"name": "harness", "path": "harness/", "serves_properties": claimed,
         "kind_free_text": "Rust correspondence harness linking the real crates in-process (path deps on /repo): simulated bitcoind, history generators, property monitors; emits op streams replayed by the Lean driver"},
        {"name": "extractor", "path": "tools/extract.py", "serves_properties": claimed,
         "kind_free_text": "translator of constants / comparators / tables / config rules / crypto recipe / wire tables from the Rust sources (and build.rs, .proto files) into Gen/{Consts,Config,Crypto,Wire}.lean"},
    ],
    "checks": [chk(p) for p in claimed],
    "notes": "See DESIGN.md. ./check <ID> = extractor -> lake build Props/<ID> + #print axioms audit -> harness on the real code (rebuilt from /repo's working tree) -> model diff -> known-findings filter (known_findings.json) -> evidence/<ID>.json.",
    "not_applicable": [{"property_id": k, "reason": v} for k, v in sorted(NOT_CLAIMED.items()) if k not in claimed],
}
json.dump(m, open(os.path.join(ROOT, "MANIFEST.json"), "w"), indent=1)
print("claimed:", claimed)
