#!/bin/sh
# runs every claimed check (quick tier) on the unchanged tree and validates the evidence files
cd "$(dirname "$0")/.."
for p in $(python3 -c "import json; print(' '.join(c['property_id'] for c in json.load(open('MANIFEST.json'))['checks']))"); do
  ./check $p 2>&1 | grep -E "VIOLATION|^\[" 
done
python3-vt -c "
import json,jsonschema,glob
s=json.load(open('/root/.vp/EVIDENCE.schema.json'))
for c in json.load(open('MANIFEST.json'))['checks']:
    jsonschema.validate(json.load(open(c['evidence_file'])),s)
jsonschema.validate(json.load(open('MANIFEST.json')),json.load(open('/root/.vp/MANIFEST.schema.json')))
print('evidence+manifest valid')"
