#!/bin/sh
# usage: tools/mut.sh <file> <sed-expr> <check ids...> : applies a mutation to /repo, runs checks, reverts
f=$1; e=$2; shift 2
cd /repo && sed -i "$e" "$f" && git diff --stat | tail -1
cd /verif
for p in "$@"; do ./check $p 2>&1 | grep -E "VIOLATION|^\[" | head -4; done
git -C /repo checkout -- . 
# refresh the evidence on the unchanged tree
cd /verif; for p in "$@"; do ./check $p > /dev/null 2>&1; done
