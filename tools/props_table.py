"""Per-property configuration of ./check: which harness components tie the model to /repo,
which monitor failures belong to the property, the trusted base and the assumptions."""

TB_COMMON = [
    "Lean 4.33 kernel; axioms limited to propext, Classical.choice, Quot.sound (audited with #print axioms on every run)",
    "hand-written Lean model of the anchored code, tied to /repo by the correspondence harness (same operation stream on the real code and on the compiled model, outputs diffed) and by the extractor (constants/comparators regenerated from the sources into Gen/)",
    "the harness itself (simulated bitcoind, block builder, canonicalisation) and the extractor",
]

PROPS = {
    "C19": {
        # txindex: the index itself; tower: the two call sites that feed it (watcher and responder), in whole histories
        "components": ["txindex", "tower"],
        "monitor_props": ["C19"],
        "trusted_base": TB_COMMON + [
            "modelled, not verified: std HashMap/VecDeque, rust-bitcoin hashing, lightning-block-sync block validation",
        ],
        "assumptions": [
            "block hashes are distinct and a key (txid/locator prefix) is not repeated inside the active chain",
            "a reorg never disconnects more blocks than the index currently holds (property: depth up to the index size)",
        ],
        "partial": "the full statement (exactly the last N blocks after ANY sequence) is false of the code: during the re-connection phase of a reorg the index holds N-k blocks (theorem full_statement_fails; known finding). Proved: look-ups = last |blocks| blocks, no stale entry, true heights, |blocks| = N outside that phase.",
    },

}

TB_TOWER = TB_COMMON + [
    "modelled, not verified: sqlite/rusqlite (PK, FK, ON DELETE CASCADE as in the schema), rust-bitcoin serialisation and hashing, secp256k1 recovery, ChaCha20-Poly1305 (ideal cipher in the model), tonic request plumbing",
    "node replies are an oracle fixed for the duration of one tower operation (the simulated bitcoind answers from a per-operation table, which the model receives verbatim)",
]
AS_TOWER = [
    "RIPEMD160(locator||user) is injective on the inputs used (uuid = (locator, user) in the model)",
    "no u32 overflow in height + duration and expiry + grace (realistic configurations)",
    "requests reach the internal API through the HTTP front end (non-empty locator of 16 bytes, appointment present)",
    "sequential executions (concurrency is the subject of C10/C11)",
    "history-level theorems quantify over histories that are valid in the sense of the stated predicates (OpValid / OpValidC / OpValidE: fresh block hashes and transaction ids, connection at tip + 1, disconnection of the tip no deeper than the index holds, heights >= 6 and < u32::MAX); C02's and C06's need no such predicate",
]

def _tower(partial):
    return {"components": ["tower"], "trusted_base": TB_TOWER, "assumptions": AS_TOWER, "partial": partial}

PROPS["C01"] = _tower("proved for every block and every reachable state: every held appointment whose locator matches a transaction of the connected block and whose blob decrypts has its penalty dealt with before the watcher finishes the block (both nested loops composed, aborts included); rows with other locators untouched. The outcome half (tracker with exactly that data / only that appointment dropped) is per loop iteration + monitors. `-27 already in chain` leaves the appointment watched without a tracker (known finding under C03). Late appointments after a reorg can miss the 6-block window (known finding, C19 deficit).")
PROPS["C02"] = _tower("call sites of sendrawtransaction enumerated and each bounded by a theorem; the union over whole histories is a theorem too (ghost-record invariant GInv, Lemmas/TowerJust), and is re-checked by the C02 monitor on every RPC of every explored history of the real code.")
PROPS["C04"] = _tower("per-tracker theorems for each of the four loops + block-level refund theorem; confirmed-only-in-the-active-chain is proved for every valid history against a ghost active chain (validity: block hashes and txids not repeated in the active chain, connection at tip+1, disconnection of the tip, reorgs no deeper than the 100 blocks the responder holds). Periodic re-submission and the 100-confirmation completion are per step + monitors.")
PROPS["C06"] = _tower("recover_pk is an input (the signer); the byte-exact request messages are recomputed by the harness independently of the tower's code. History level: every appointment row of every reachable state was put there by an authenticated add_appointment of its owner; non-interference of whole request histories is a theorem (requests_of_others_change_nothing: the per-operation frames composed); blocks act on every user's data by design and are covered by the block-level theorems + monitors.")
PROPS["C07"] = _tower("conservation proved in differential form per primitive, memory = disk for every history; the SUM form is a theorem for whole histories in the form available + occupied <= granted (ghost count of accepted registrations since the user's current record began; Lemmas/TowerSlots: no step adds more than it grants, a refund returns exactly what the deleted rows occupied); the forfeited amount is the difference and is not named event by event. The monitor recomputes the sum from the real tables after every operation. f32 formula proved exact below 2^24 and compared exhaustively with the real function.")
PROPS["C07"]["components"] = ["tower", "slots"]
# a request racing with the block at which its user's subscription runs out: the interleavings of the conc component
PROPS["C06"]["components"] = ["tower", "conc"]
# restarts that replay blocks (the recorded block lags behind a long poll) are explored by the crash component
PROPS["C02"]["components"] = ["tower", "crash"]
PROPS["C08"] = _tower("signature scheme abstract here (C17); byte layouts in C16.")
PROPS["C09"] = _tower("u32 wrap-around of the two unchecked additions excluded by precondition. History level (nobody outlives expiry + grace) needs duration + grace > 0, connected heights below u32::MAX and disconnections that do not raise the height.")

PROPS["C20"] = {
    "components": ["config"],
    "trusted_base": TB_COMMON + ["the translator of config.rs (tools/extract.py): field list, defaults, patch rules, auth and network tables are regenerated on every run; the reading given to the four patch rules is hand-written and validated by the exhaustive correspondence run",
                                 "modelled, not verified: toml/serde deserialisation, structopt parsing"],
    "assumptions": ["a configuration file that does not parse as TOML is treated as absent (from_file falls back to defaults, as the source does)"],
    "partial": "",
}

PROPS["C17"] = {
    "components": ["crypto"],
    "trusted_base": TB_COMMON + [
        "the functional laws of the primitives are ASSUMED in the theorems (structure fields of AEAD / Suite / SigScheme): decrypt-after-encrypt, 'what opens is the sealing' (deterministic AEAD with fixed nonce), deserialize-after-serialize, recover-after-sign; they are tested, not proved, on ChaCha20-Poly1305 / rust-bitcoin / secp256k1",
        "cryptographic hardness (key commitment / collision resistance / unforgeability) is never proved: 'another id fails' and 'no forgery verifies' are reductions plus tests",
    ],
    "assumptions": ["consensus serialisation is canonical for the transactions the tower handles (tested)"],
    "partial": "the two computational clauses (another id fails; no altered message/signature verifies) are reductions + labelled tests, not theorems",
}

TB_CONC = TB_TOWER + [
    "hook H5 (teos::vsync): with the feature on, Mutex/Condvar are wrappers reporting to the harness; the deterministic scheduler and the recorder are harness code",
    "schedule exploration is SEARCH (bounded pre-emptions, fixed scenarios): it validates which sections are atomic and finds failing schedules, it is not a proof",
]
PROPS["C10"] = {"components": ["conc"], "monitor_props": ["C10"], "trusted_base": TB_CONC,
    "assumptions": ["critical-section granularity: what runs between two lock operations of a thread is atomic with respect to the other threads' sections on the same locks",
                    "height stamps read from relaxed atomics (start_block, in-mempool-since) and numbers echoed in replies are not part of the compared outcome (DESIGN.md C10)"],
    "partial": "theorems cover the two orders of the mutually exclusive sections (no missed breach), charged-once, commuting slot updates, foreign keys; that every interleaving of whole operations is equivalent to a sequential order is explored (<= 2/3 pre-emptions), not proved; tokio scheduling and memory-model effects are outside the model. Known finding: requests racing with the purge of their own user panic."}
PROPS["C11"] = {"components": ["conc", "tower"], "monitor_props": ["C11"], "trusted_base": TB_CONC,
    "assumptions": ["the recorded lock traces (re-recorded and compared on every run) are the lock behaviour of the operations in the states explored; other states are covered by the lock-order graph recorded over every harness run"],
    "partial": "deadlock freedom is a theorem for any number of threads running the recorded operation traces; abort-freedom is a theorem for every SEQUENTIAL history (tower_never_aborts: global invariant over all operations, hypotheses: consistent database at start, distinct block hashes, heights >= 6, disconnections of the tip) and the model's abort marker is compared with real panics on every history; under concurrency three abort sites remain reachable (known findings); condition-variable waits are C12."}

PROPS["C12"] = {"components": ["outage"], "monitor_props": ["C12"], "trusted_base": TB_CONC + [
        "the simulated block source (lightning-block-sync BlockSource) and the fault script; SpvClient's fork walk and partial-progress behaviour are exercised, not verified"],
    "assumptions": ["granularity: one RPC attempt, one block delivery, one poll are the atomic steps of the model; the condition variable is handled by the scheduler (a wait ends only after a notify)"],
    "partial": "the full statement is false of the code on the block-processing path and on the request path when a block is mined during the outage (negative theorems + known findings); proved: no submission dropped, 503 iff flag down, request-path recovery without a mined block, partial progress kept. Real time (poll period) is not modelled."}

PROPS["C03"] = {"components": ["crash", "tower"], "monitor_props": ["C03"], "trusted_base": TB_TOWER + [
        "hooks H2/H3: crash points before/after every durable statement and transaction commit; the harness unwinds there, drops every object and re-bootstraps from the file through the real code",
        "sqlite's atomic commit and foreign-key enforcement are trusted (exercised on real files); a crash is modelled as 'a prefix of the committed writes survives'",
        "the simulated block source for the catch-up"],
    "assumptions": ["process death = unwinding at a crash point (no torn sqlite pages: sqlite's journal is trusted)"],
    "partial": "integrity at every prefix, faithfulness of the write log, atomic refund, charge-before-store, last-known-block written last are theorems; replay of unfinished blocks giving the same result as the uninterrupted run is compared on the real code at every crash point of generated histories, not proved. Known findings: last known block recorded ahead of a partially delivered poll; refund written before the shrunk row; a penalty sent, then confirmed while the tower is down, is not tracked after the restart."}

TB_CLIENT = TB_COMMON + [
    "modelled, not verified: sqlite/rusqlite (primary keys, foreign keys with ON DELETE CASCADE as in the client schema, one transaction per DBM method = atomic), serde_json serialisation of the summaries",
    "the hand-written model of watchtower-plugin's DBM + WTClient (tied to /repo by the differential run on the real crate, not proved equal to the Rust)",
]
PROPS["C18"] = {"components": ["client"], "monitor_props": ["C18"], "trusted_base": TB_CLIENT,
    "assumptions": ["set_tower_status is never called with Misbehaving (only flag_misbehaving_tower sets it): true of every call site in the plugin",
                    "a crash point is the boundary of a DBM transaction (sqlite's atomic commit is trusted); a reload after every prefix therefore covers every crash point"],
    "partial": ""}

TB_PLUGIN = TB_CLIENT + [
    "the hand-written model of the plugin's handler / retry manager / retriers / commands at stable points (Model/Plugin.lean), tied to /repo by the binary-level run: the real watchtower-client process over its stdin/stdout protocol against scripted fake towers",
    "the fake towers, the plugin driver, the stable-point detection (no change for 1.6 s, or for the whole retry budget + 3.5 s while a tower is being retried) are harness code",
    "modelled, not verified: cln-plugin's JSON-RPC runtime, tokio scheduling, reqwest, the backoff crate; real time is not in the model (measured by monitors)",
]
PROPS["C05"] = {"components": ["plugin"], "monitor_props": ["C05"], "trusted_base": TB_PLUGIN,
    "assumptions": ["'notified' = the hook call has returned (a kill while the handler is still looping over the towers interrupts the notification itself)",
                    "crash points are transaction boundaries (sqlite's atomic commit is trusted); kills in the scenarios happen at stable points, the theorem never_lost covers every boundary",
                    "remove_pending_appointment is only called right after the receipt or the rejection of the same (tower, locator) was stored (its two call sites in Retrier::run)"],
    "partial": "proved: recorded in AT LEAST one of accepted/pending/invalid at every transaction boundary of every guarded operation sequence (never_lost), and EXACTLY one at every stable point of every event history (exactly_one_at_stable_points: invariant Tidy kept by the handler, the retriers, the commands and the restart). Between the two writes of a move both records exist (example in Props/C05.lean); a kill exactly there would leave both in the file until the next start completes the move: not exhibited on the real binary, so not listed as a finding. The hold/release events (a retrier blocked on a silent tower) are events of the history theorems too; a hold with a one-shot reply queued in front of it is outside the model (the generator does not produce it)."}
PROPS["C13"] = {"components": ["plugin"], "monitor_props": ["C13"], "trusted_base": TB_PLUGIN,
    "assumptions": ["tower behaviour is constant while a retrier runs (the scenarios change it only at stable points)",
                    "an idle retrier implies status unreachable (holds in every compared state after fix 4463be4; hypothesis of manual_retry_documented_states)"],
    "partial": "proved for every event history: a tower shown reachable has nothing pending (listing and file), the pending listing is the file; delivery after recovery incl. after a subscription renewal; the manual-retry gate. Real-time clauses (delivery within the configured delays, request rate) are measured on the real binary with tolerances, not proved; 'at no time two retry loops for one tower' is a theorem of the small-step model of the retry manager (never_two_retry_loops, every interleaving of messages, manager iterations and task completions), tied to the source by the extracted call sites of tokio::spawn / start / set_status, not by a differential run of the manager alone; the timed auto-retry scenarios are monitor-only (not compared with the stable-point model)."}
PROPS["C14"] = {"components": ["plugin", "client"], "monitor_props": ["C14"], "trusted_base": TB_PLUGIN + [
        "signature verification and recovery are the abstract scheme of C17; replies reach the model already classified (wrong signer / unparsable / ...)"],
    "assumptions": ["the classification of a reply by net::http (process_post_response, send_appointment) is total and panic-free: checked on the real binary for every reply kind of the scenarios (monitor no_answer), not proved for all byte strings"],
    "partial": "what the client does with each class of reply is proved; that no byte string makes the parsing layer itself panic is tested (non-JSON, wrong shape, empty, error objects, undecodable signature, wrong signer), not proved."}

TB_HTTP = TB_TOWER + [
    "the hand-written HTTP model (Model/Http.lean): routing, body limits, decoding-error categories, field validation, match_status; limits, error constants and the status table are regenerated from http.rs / errors.rs by the extractor on every run",
    "modelled, not verified: warp's routing and rejection ranking, hyper, serde_json's error messages (the category of each single-fault body is compared on the real router), tonic transport between the HTTP front and the internal API",
    "the harness' raw HTTP client and the loopback servers (tonic + teos::api::http::serve started as main.rs starts them)",
]
PROPS["C15"] = {"components": ["http"], "monitor_props": ["C15"], "trusted_base": TB_HTTP,
    "assumptions": ["a body has at most one fault (serde reports the first problem it meets; which one is first depends on the key order, not modelled)",
                    "the internal API answers success or one of the six gRPC codes of its four public handlers and does not abort (C11 covers the handlers)"],
    "partial": "for request bodies that do not fall in one of the modelled fault categories (arbitrary bytes, several faults at once) the answer is checked on the real router by monitors only (documented status, JSON error with a documented code, never 255, tower dump unchanged), not proved; 'promptly' is measured (3 s bound)."}

PROPS["C16"] = {"components": ["wire"], "monitor_props": ["C16"], "trusted_base": TB_HTTP + [
        "the translator of build.rs / the .proto files / appointment.rs / receipts.rs / the plugin's net/http.rs into Gen/Wire.lean (field adapters, messages, status names, signed layouts, ApiResponse variants): regenerated on every run; its reading is validated by comparing the model's printed JSON / hex / layouts with the real serialisers line by line",
        "serde_json's printing and parsing of strings and numbers, prost-generated struct definitions (both sides compile the same generated types)"],
    "assumptions": ["field values are byte strings, u32 numbers and signature strings without characters that need JSON escaping (zbase32)"],
    "partial": "round trips are proved for the adapters (hex, reversed hex, vectors of hex, status names, be32) and injectivity for the signed layouts; the JSON object layer (key lookup, number/strings printing) is serde_json's and is compared, not proved; 'every request the client can emit is parsed by the tower into the same field values' is checked end-to-end on histories sent by the client's real code, not proved."}
