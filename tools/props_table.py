"""Per-property configuration of ./check: which harness components tie the model to /repo,
which monitor failures belong to the property, the trusted base and the assumptions."""

TB_COMMON = [
    "Lean 4.33 kernel; axioms limited to propext, Classical.choice, Quot.sound (audited with #print axioms on every run)",
    "hand-written Lean model of the anchored code, tied to /repo by the correspondence harness (same operation stream on the real code and on the compiled model, outputs diffed) and by the extractor (constants/comparators regenerated from the sources into Gen/)",
    "the harness itself (simulated bitcoind, block builder, canonicalisation) and the extractor",
]

PROPS = {
    "C19": {
        "components": ["txindex"],
        "monitor_props": ["C19"],
        "trusted_base": TB_COMMON + [
            "modelled, not verified: std HashMap/VecDeque, rust-bitcoin hashing, lightning-block-sync block validation",
        ],
        "assumptions": [
            "block hashes are distinct and a key (txid/locator prefix) is not repeated inside the active chain",
            "a reorg never disconnects more blocks than the index currently holds (property: depth up to the index size)",
        ],
        "partial": "the full statement (exactly the last N blocks after ANY sequence) is false of the code: during the re-connection phase of a reorg the index holds N-k blocks (theorem full_statement_fails; known finding). Proved: look-ups = last |blocks| blocks, no stale entry, true heights, |blocks| = N outside that phase.",
    },
}
